------------------------------- MODULE FPS -------------------------------
(* Reference FPS as a state machine on a 2-D integer lattice: the incremental    *)
(* min-update of the table is checked against the brute-force table for all      *)
(* placements of N points and all initial points.                                *)
EXTENDS FPSRef, TLC
CONSTANTS N, Coords
Item == 1..N
VARIABLES P, sel, haus, hsel
vars == <<P, sel, haus, hsel>>
NoQ == [i \in Item |-> <<>>]
D(i, j) == Dist(P, NoQ, 1, 0, i, j)
Init == /\ P \in [Item -> Coords \X Coords] /\ sel = <<>> /\ haus = [i \in Item |-> INF] /\ hsel = <<>>
Update(c) == /\ hsel' = Append(hsel, haus[c])
             /\ haus' = [i \in Item |-> IMin2(haus[i], D(i, c))]
             /\ sel' = Append(sel, c) /\ UNCHANGED P
InitSelect(c) == Len(sel) = 0 /\ Update(c)
Select(c) == /\ Len(sel) > 0 /\ Len(sel) < N
             /\ c \in ArgMaxSet(haus, Item \ RangeOf(sel))
             /\ Update(c)
Next == \E c \in Item : InitSelect(c) \/ Select(c)
Spec == Init /\ [][Next]_vars
TableIsTrue == haus = TrueTable(P, NoQ, 1, 0, N, sel)
SelectedAreZero == \A i \in RangeOf(sel) : haus[i] = 0
HselIsTrue == hsel = SelectDistances(P, NoQ, 1, 0, N, sel)
Monotone == NonIncreasingAfterFirst(hsel)
DistinctSel == Distinct(sel)
==========================================================================
