----------------------------- MODULE TraceFPS -----------------------------
(* Trace validation of FPS / PCov-FPS / VoronoiFPS against reference FPS (C02,   *)
(* C06, table part of C08).  The items' coordinates are part of the trace; the   *)
(* specification recomputes every distance by brute force and requires           *)
(*   - the table the selector scored with at each decision = TrueTable(sel),     *)
(*   - each choice is a farthest not-yet-selected candidate of the TRUE table,   *)
(*   - get_distance() = TrueTable(final sel), get_select_distance() = distances  *)
(*     at selection time (non-increasing after the first entry),                 *)
(*   - the first selections are the requested initial indices.                   *)
EXTENDS FPSRef, TLC, Json, IOUtils
Traces == JsonDeserialize(IOEnv.TRACE_FILE)
VARIABLES tid, l, sel, infit, verdict, ctx
vars == <<tid, l, sel, infit, verdict, ctx>>
Tr == Traces[tid]
N == Tr.n
Ev == Tr.events
P == Tr.P
Q == Tr.Q
TT(s) == TrueTable(P, Q, Tr.wa, Tr.wb, N, s)
Init == tid \in 1..Len(Traces) /\ l = 1 /\ sel = <<>> /\ infit = FALSE /\ verdict = <<"running">> /\ ctx = <<>>
Reject(c, x) == verdict' = <<"rejected", c, l>> /\ ctx' = x /\ UNCHANGED <<sel, infit>>
NoCtx == [none |-> TRUE]
OffLattice(t) == \E i \in 1..Len(t) : t[i] = -7777777
Begin(e) == IF e.raised /\ "valid" \in DOMAIN e /\ e.valid THEN Reject("valid-request-rejected", NoCtx)
            ELSE IF e.raised THEN UNCHANGED <<sel, infit, verdict, ctx>>
            ELSE /\ sel' = IF e.warm THEN sel ELSE e.init
                 /\ infit' = TRUE /\ UNCHANGED <<verdict, ctx>>
TieCtx(t) == [tied |-> Cardinality(ArgMaxSet(t, Unselected(N, sel))) > 1]
Step(e) ==
    LET t == TT(sel) IN
    IF OffLattice(e.score) THEN Reject("score-table-off-lattice", NoCtx)
    ELSE IF e.score # t THEN Reject("score-table-differs-from-true-minimum", [step |-> Len(sel)])
    ELSE IF e.c = 0 THEN UNCHANGED <<sel, infit, verdict, ctx>>      \* threshold stop: bookkeeping is C01's
    ELSE IF e.c \notin 1..N THEN Reject("index-out-of-range", NoCtx)
    ELSE IF e.c \in RangeOf(sel) THEN Reject("reselected-item", NoCtx)
    ELSE IF e.c \notin Farthest(P, Q, Tr.wa, Tr.wb, N, sel) THEN Reject("choice-not-a-farthest-candidate", TieCtx(t))
    ELSE sel' = Append(sel, e.c) /\ UNCHANGED <<infit, verdict, ctx>>
Post(e) ==
    IF SubSeq(e.p.ordered, 1, IMin2(Len(sel), Len(e.p.ordered))) # SubSeq(sel, 1, IMin2(Len(sel), Len(e.p.ordered)))
         THEN Reject("reported-selection-differs-from-decisions", NoCtx)
    ELSE IF ~e.warm /\ Len(Tr.wantinit) > 0 /\ SubSeq(sel, 1, IMin2(Len(sel), Len(Tr.wantinit))) # SubSeq(Tr.wantinit, 1, IMin2(Len(sel), Len(Tr.wantinit)))
         THEN Reject("first-selections-differ-from-requested-initialisation", NoCtx)
    ELSE IF OffLattice(e.table) \/ OffLattice(e.hsel) THEN Reject("reported-distance-off-lattice", NoCtx)
    ELSE IF e.table # TT(sel) THEN Reject("get_distance-differs-from-true-minimum", NoCtx)
    ELSE IF Len(e.hsel) = Len(sel) /\ e.hsel # SelectDistances(P, Q, Tr.wa, Tr.wb, N, sel)
         THEN Reject("get_select_distance-differs-from-distance-at-selection", NoCtx)
    \* greedy selections (after the user-supplied initial ones) have non-increasing distances
    ELSE IF \E i \in (IMax2(1, Len(Tr.wantinit)) + 1)..(Len(e.hsel) - 1) : e.hsel[i] < e.hsel[i + 1]
         THEN Reject("select-distances-increase", NoCtx)
    ELSE infit' = FALSE /\ UNCHANGED <<sel, verdict, ctx>>
Raised(e) == Reject("fit-raised-midway", NoCtx)
Consume == /\ verdict = <<"running">> /\ l <= Len(Ev)
           /\ LET e == Ev[l] IN
              CASE e.a = "begin"  -> Begin(e)
                [] e.a = "step"   -> Step(e)
                [] e.a = "post"   -> Post(e)
                [] e.a = "raised" -> Raised(e)
           /\ l' = l + 1 /\ UNCHANGED tid
Accept == /\ verdict = <<"running">> /\ l = Len(Ev) + 1
          /\ verdict' = <<"ok">> /\ UNCHANGED <<tid, l, sel, infit, ctx>>
Next == Consume \/ Accept
Spec == Init /\ [][Next]_vars
Done == verdict # <<"running">>
Emit == Done => PrintT(ToJson([k |-> "V", id |-> Tr.id, v |-> verdict, ctx |-> ctx]))
===========================================================================
