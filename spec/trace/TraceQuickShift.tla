-------------------------- MODULE TraceQuickShift --------------------------
(* C16: a recorded QuickShift fit must be a valid labelling w.r.t. the reference   *)
(* relation of QuickShiftRef, with distances recomputed by the specification from  *)
(* the integer coordinates (minimum image with a cell).                            *)
EXTENDS QuickShiftRef, PeriodicRef, TLC, Json, IOUtils
Cases == JsonDeserialize(IOEnv.TRACE_FILE)
VARIABLES tid, dm
C == Cases[tid]
N == C.n
DMat(c) == [a \in 1..c.n |-> [b \in 1..c.n |-> PD2(c.P[a], c.P[b], c.cell)]]
Init == tid \in 1..Len(Cases) /\ dm = DMat(Cases[tid])
Next == UNCHANGED <<tid, dm>>
Spec == Init /\ [][Next]_<<tid, dm>>
W == C.W
root == C.labels
G == IF C.gabriel # <<>> THEN C.gabriel ELSE GabrielMay(N, dm)
Allowed(a) == IF C.mode = "cut" THEN AllowedCut(N, dm, W, C.cut, a) ELSE AllowedGab(N, dm, W, G, C.shell, a)
TieFree == \A a \in 1..N : Cardinality(Allowed(a)) = 1
GraphClause == IF C.mode = "cut" THEN "ok"
               ELSE IF C.gabriel = <<>> THEN (IF GabrielMust(N, dm) = GabrielMay(N, dm) THEN "ok" ELSE "inconclusive")
               ELSE IF ~GSymmetric(N, G) THEN "gabriel-graph-not-symmetric"
               \* "no third point INSIDE the ball spanned by an edge": a third point exactly ON the sphere does not remove the edge.
               \* Recorded fits use dyadic coordinates, for which squared distances and their sums are exact in double precision,
               \* so the graph is held to the definition itself (GabrielMay), ties included.
               \* (in free space; the minimum-image distances of the periodic metric carry rounding noise of a few 1e-16 even for
               \* dyadic input - 10.000000000000002 for an exact 10 - so with a cell a third point ON the sphere stays undecided)
               ELSE IF C.cell = <<>> /\ ~GraphBetween(N, G, GabrielMay(N, dm), GabrielMay(N, dm)) THEN "gabriel-graph-differs-from-brute-force-definition"
               ELSE IF ~GraphBetween(N, G, GabrielMust(N, dm), GabrielMay(N, dm)) THEN "gabriel-graph-differs-from-brute-force-definition"
               ELSE "ok"
Clause ==
    IF C.raised THEN "fit-raised"
    ELSE IF Len(root) # N THEN "labels-have-wrong-length"
    ELSE IF \E a \in 1..N : root[a] \notin 1..N THEN "label-out-of-range"
    ELSE IF GraphClause \notin {"ok", "inconclusive"} THEN GraphClause
    ELSE IF GraphClause = "inconclusive" THEN "inconclusive"
    ELSE IF ~Idempotent(N, root) THEN "label-is-not-a-centre"
    ELSE IF C.centers # SortSet(Centers(N, root)) THEN "cluster_centers_idx-not-the-self-labelled-points"
    ELSE IF ~C.centers_rows_ok THEN "cluster_centers-not-the-centre-rows"
    ELSE IF ~HeaviestIsCenter(N, W, root) THEN "heaviest-point-is-not-a-centre"
    ELSE IF \E a \in 1..N : root[a] = a /\ a \notin Allowed(a) THEN "centre-has-an-allowed-heavier-neighbour"
    ELSE IF ~Valid(N, root, Allowed) THEN "point-does-not-reach-its-centre-by-allowed-moves"
    ELSE IF C.base # <<>> /\ TieFree /\ C.base # root THEN "partition-depends-on-order-weights-or-images"
    ELSE "ok"
Verdict == LET c == Clause IN IF c = "ok" THEN <<"ok">> ELSE IF c = "inconclusive" THEN <<"inconclusive", "on-sphere-points-without-observed-graph">> ELSE <<"rejected", c>>
Emit == PrintT(ToJson([k |-> "V", id |-> C.id, v |-> Verdict, ctx |-> [tiefree |-> TieFree, mode |-> C.mode, kind |-> C.kind]]))
============================================================================
