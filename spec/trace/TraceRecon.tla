------------------------------ MODULE TraceRecon ------------------------------
(* C13: relations among the outputs of the eight reconstruction measures, in fixed  *)
(* point (values * 2^14).  A case holds, for one data set and one scenario that TLC *)
(* enumerated (dimension pair, transformation): the base outputs, the outputs on    *)
(* the transformed data, and the outputs of the special constructions               *)
(*   gre_lin   GRE(X, XA)  (X full column rank)      must vanish                    *)
(*   grd_orth  GRD(X, XQ)  (Q orthogonal)            must vanish                    *)
(*   gre_train GRE evaluated on the training set     must not exceed 1              *)
(*   lre_all / pgre_all  LRE with all training points as neighbours and an order-   *)
(*             independent estimator vs pointwise GRE with the same estimator       *)
EXTENDS Fx, TLC, Json, IOUtils
Cases == JsonDeserialize(IOEnv.TRACE_FILE)
VARIABLES tid
C == Cases[tid]
Init == tid \in 1..Len(Cases)
Next == UNCHANGED tid
Spec == Init /\ [][Next]_tid
Close(a, b) == FAbs(a - b) <= 24 + FMax2(FAbs(a), FAbs(b)) \div 100
RmsOK(g, pw) == g > 100 * S \/ FVMaxAbs(pw) > 100 * S \/       \* out of the fixed-point range (ill-conditioned local fits): not decided
                LET n == Len(pw)  s2 == FSumR([i \in 1..n |-> FMul(pw[i], pw[i])], n) IN
                FAbs(n * FMul(g, g) - s2) <= 8 * n * (g \div S + FVMaxAbs(pw) \div S + 2) + s2 \div 200
M == C.base           \* record: gre, pgre, grd, pgrd, lre, plre (global values and pointwise lists)
T == C.trans
NonNeg(v) == \A i \in 1..Len(v) : v[i] >= 0
Clause ==
    IF C.raised # "" THEN "measure-undefined-for-this-pair-of-dimensions"
    ELSE IF Len(M.pgre) # Len(M.pgrd) \/ Len(M.pgre) # Len(M.plre) \/ (C.ntest > 0 /\ Len(M.pgre) # C.ntest)
         THEN "pointwise-measures-do-not-have-one-entry-per-test-sample"
    ELSE IF ~(NonNeg(M.pgre) /\ NonNeg(M.pgrd) /\ NonNeg(M.plre)) THEN "pointwise-measure-negative"
    ELSE IF ~RmsOK(M.gre, M.pgre) THEN "GRE-is-not-the-root-mean-square-of-its-pointwise-values"
    ELSE IF ~RmsOK(M.grd, M.pgrd) THEN "GRD-is-not-the-root-mean-square-of-its-pointwise-values"
    ELSE IF ~RmsOK(M.lre, M.plre) THEN "LRE-is-not-the-root-mean-square-of-its-pointwise-values"
    ELSE IF C.gre_lin > 48 THEN "GRE-of-a-linear-image-does-not-vanish"
    ELSE IF C.grd_orth > 48 THEN "GRD-of-an-orthogonal-image-does-not-vanish"
    ELSE IF C.gre_train > S + 64 THEN "training-set-GRE-exceeds-one"
    ELSE IF Len(C.lre_all) # Len(C.pgre_all) \/ \E i \in 1..Len(C.lre_all) : ~Close(C.lre_all[i], C.pgre_all[i]) THEN "LRE-with-all-neighbours-differs-from-pointwise-GRE"
    ELSE IF Len(C.plre_par) # Len(C.plre_seq) \/ \E i \in 1..Len(C.plre_seq) : ~Close(C.plre_par[i], C.plre_seq[i]) THEN "pointwise-LRE-depends-on-n_jobs"
    ELSE IF ~Close(C.lre_self_rot, C.lre_self) THEN "LRE-on-the-training-points-changes-under-a-rotation-of-the-source"
    ELSE IF ~Close(C.lre_bigshift, C.lre_fix) THEN "LRE-changes-under-a-large-shift-of-the-source"
    ELSE IF ~Close(C.lre_colscaled, C.lre_col) THEN "LRE-with-a-per-column-scaler-changes-under-per-column-rescaling"
    ELSE IF ~Close(T.gre, M.gre) THEN "GRE-changes-under-" \o C.kind
    ELSE IF ~Close(T.grd, M.grd) THEN "GRD-changes-under-" \o C.kind
    ELSE IF ~Close(T.lre, M.lre) THEN "LRE-changes-under-" \o C.kind
    ELSE "ok"
Verdict == LET c == Clause IN IF c = "ok" THEN <<"ok">> ELSE <<"rejected", c>>
Emit == PrintT(ToJson([k |-> "V", id |-> C.id, v |-> Verdict, ctx |-> [kind |-> C.kind, dx |-> C.dx, dy |-> C.dy]]))
===============================================================================
