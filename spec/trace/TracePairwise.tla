--------------------------- MODULE TracePairwise ---------------------------
(* C15: outputs of periodic_pairwise_euclidean_distances and                      *)
(* pairwise_mahalanobis_distances on integer points / cells (times a dyadic       *)
(* scale) must EQUAL the reference minimum-image function of PeriodicRef, whose   *)
(* metric laws TLC checks exhaustively in PeriodicMetric.tla.                     *)
(*   sq    : squared=True output, snapped to lattice units (-7777777 = off)       *)
(*   dq    : squared=False output times DQ (rounded)                              *)
(*   maha  : squared Mahalanobis outputs per precision of the stack               *)
EXTENDS PeriodicRef, TLC, Json, IOUtils
Cases == JsonDeserialize(IOEnv.TRACE_FILE)
VARIABLES tid
C == Cases[tid]
Init == tid \in 1..Len(Cases)
Next == UNCHANGED tid
Spec == Init /\ [][Next]_tid
DQ == 1024
NX == Len(C.X)
NY == Len(C.Y)
Ref(i, j) == PD2(C.X[i], C.Y[j], C.cell)
Pairs == (1..NX) \X (1..NY)
SqClause == IF C.sq = <<>> THEN "ok"
            ELSE IF \E p \in Pairs : C.sq[p[1]][p[2]] = -7777777 THEN "squared-distance-off-lattice"
            ELSE IF \E p \in Pairs : C.sq[p[1]][p[2]] # Ref(p[1], p[2]) THEN "squared-distance-differs-from-minimum-image"
            ELSE "ok"
\* |dq^2 - D2*DQ^2| <= dq + 1  (dq carries half a unit of rounding)
DClause == IF C.dq = <<>> THEN "ok"
           ELSE IF \E p \in Pairs : LET d == C.dq[p[1]][p[2]]  r == Ref(p[1], p[2]) IN
                        r < 2000 /\ (d > 46000 \/ d < 0 \/ IAbs(d * d - r * DQ * DQ) > d + 1)
                THEN "distance-is-not-the-root-of-the-squared-distance"
           ELSE IF \E p \in Pairs : C.dq[p[1]][p[2]] < 0 THEN "negative-distance"
           ELSE "ok"
SymClause == IF C.sqT = <<>> THEN "ok"
             ELSE IF \E p \in Pairs : C.sqT[p[2]][p[1]] # C.sq[p[1]][p[2]] THEN "not-symmetric"
             ELSE "ok"
\* nearly equal members of a stack: precision s is L_s L_s^T times the dyadic factor C.lmul[s] / 2^17 (outputs are logged in
\* units of 2^-17 lattice units then); <<>> = plain stack
Mul(s) == IF C.lmul = <<>> THEN 1 ELSE C.lmul[s]
MahaClause == IF C.maha = <<>> THEN "ok"
              ELSE IF Len(C.maha) # Len(C.L) THEN "stack-size-differs"
              ELSE IF \E s \in 1..Len(C.L), p \in Pairs :
                        ~HalfCell(C.X[p[1]], C.Y[p[2]], C.cell) /\ C.maha[s][p[1]][p[2]] # MahaD2(C.X[p[1]], C.Y[p[2]], C.cell, C.L[s]) * Mul(s)
                   THEN "mahalanobis-differs-from-whitened-distance"
              ELSE "ok"
RaiseClause == IF C.raised /\ Len(C.cell) = C.dim THEN "valid-call-raised"
               ELSE IF C.raised /\ C.cell = <<>> THEN "valid-call-raised"
               ELSE IF ~C.raised /\ Len(C.cell) > 0 /\ Len(C.cell) # C.dim THEN "mismatched-cell-dimension-accepted"
               ELSE "ok"
First(s) == LET bad == {i \in 1..Len(s) : s[i] # "ok"} IN IF bad = {} THEN "ok" ELSE s[SetMin(bad)]
Verdict == IF RaiseClause # "ok" THEN <<"rejected", RaiseClause>>
           ELSE IF C.raised THEN <<"ok">>
           ELSE LET c == First(<<SqClause, DClause, SymClause, MahaClause>>) IN
                IF c = "ok" THEN <<"ok">> ELSE <<"rejected", c>>
Emit == PrintT(ToJson([k |-> "V", id |-> C.id, v |-> Verdict, ctx |-> [kind |-> C.kind]]))
============================================================================
