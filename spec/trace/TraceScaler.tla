----------------------------- MODULE TraceScaler -----------------------------
(* C11: StandardFlexibleScaler.  Inputs are integer matrices X with non-negative   *)
(* integer weights w (<<>> = none).  Checked by the specification:                 *)
(*  - accept / reject: the variance guard evaluated exactly in rationals           *)
(*  - the TRANSFORMED training data (Tq = round(T * S)) has weighted column means  *)
(*    0 (centring on) and weighted variance 1 per column / summed (scaling on),    *)
(*    evaluated in fixed point with a budget derived from the magnitudes           *)
(*  - inverse_transform(transform(X)) = X exactly (snapped to the lattice)         *)
(*  - transform is the same affine map on new data: T(a + b - c) = T(a)+T(b)-T(c)  *)
(*  - routes: repeated rows for integer weights, sklearn's StandardScaler, prior   *)
(*    shift, prior uniform rescaling (equal up to a global sign)                   *)
EXTENDS Fx, IntMat, TLC, Json, IOUtils
Cases == JsonDeserialize(IOEnv.TRACE_FILE)
VARIABLES tid
C == Cases[tid]
Init == tid \in 1..Len(Cases)
Next == UNCHANGED tid
Spec == Init /\ [][Next]_tid
X == C.X
n == Len(X)
m == Len(X[1])
w == IF C.w = <<>> THEN [i \in 1..n |-> 1] ELSE C.w
WS == ISum(w)
SumWX(j) == ISumR([i \in 1..n |-> w[i] * X[i][j]], n)
SumWXX(j) == ISumR([i \in 1..n |-> w[i] * X[i][j] * X[i][j]], n)
\* exact moments: mean_j = SumWX/WS, var_j = VarNum(j)/WS^2
VarNum(j) == WS * SumWXX(j) - SumWX(j) * SumWX(j)
\* guard  var < atol + |mean| * rtol   (atol = a1/a2, rtol = r1/r2), multiplied through by WS^2*a2*r2
GuardLess(vn, meannumabs, a, r) == vn * a[2] * r[2] < a[1] * WS * WS * r[2] + meannumabs * WS * r[1] * a[2]
GuardEq(vn, meannumabs, a, r) == vn * a[2] * r[2] = a[1] * WS * WS * r[2] + meannumabs * WS * r[1] * a[2]
SumVar == ISumR([j \in 1..m |-> VarNum(j)], m)
SumMeanNum == ISumR([j \in 1..m |-> SumWX(j)], m)          \* average of the column means = SumMeanNum / (m*WS)
MustReject == C.ws /\ (IF C.cw THEN \E j \in 1..m : GuardLess(VarNum(j), IAbs(SumWX(j)), C.atol, C.rtol)
                       ELSE SumVar * C.atol[2] * C.rtol[2] * m < C.atol[1] * WS * WS * C.rtol[2] * m + IAbs(SumMeanNum) * WS * C.rtol[1] * C.atol[2])
MayReject == C.ws /\ (IF C.cw THEN \E j \in 1..m : GuardLess(VarNum(j), IAbs(SumWX(j)), C.atol, C.rtol) \/ GuardEq(VarNum(j), IAbs(SumWX(j)), C.atol, C.rtol)
                      ELSE SumVar * C.atol[2] * C.rtol[2] * m <= C.atol[1] * WS * WS * C.rtol[2] * m + IAbs(SumMeanNum) * WS * C.rtol[1] * C.atol[2])
\* with the default atol (1e-12, "tiny") only an exactly zero variance is below the tolerance
TinyMustReject == C.ws /\ (IF C.cw THEN \E j \in 1..m : VarNum(j) = 0 ELSE SumVar = 0)
Rejectable == IF C.tiny THEN TinyMustReject ELSE MayReject
MustRej == IF C.tiny THEN TinyMustReject ELSE MustReject
DevNum(i, j) == X[i][j] * WS - SumWX(j)                  \* WS * (x - weighted mean)
RawNum(i, j) == IF C.wm THEN DevNum(i, j) ELSE X[i][j] * WS          \* numerator of the transformed value times WS
LegitBig == C.ws /\ \E i \in 1..n, j \in 1..m : IAbs(RawNum(i, j)) < 40000 /\ (RawNum(i, j) * RawNum(i, j)) \div 250000 >= (IF C.cw THEN VarNum(j) ELSE SumVar)
T == C.Tq
Bud(M) == 4 * (2 * (FMaxAbs(M) \div S) + 3)
ColMeanNum(j) == ISumR([i \in 1..n |-> w[i] * T[i][j]], n)              \* WS * mean of column j of T, in units 1/S
ColSq(j) == ISumR([i \in 1..n |-> w[i] * FMul(T[i][j], T[i][j])], n)    \* WS * E[T^2]
ColVar(j) == LET mu == ColMeanNum(j) \div WS IN (ColSq(j) \div WS) - FMul(mu, mu)
MeanClause == IF ~C.wm THEN "ok"
              ELSE IF \E j \in 1..m : IAbs(ColMeanNum(j)) > WS + n THEN "transformed-mean-not-zero" ELSE "ok"
VarClause == IF ~C.ws THEN "ok"
             ELSE IF C.cw THEN (IF \E j \in 1..m : IAbs(ColVar(j) - S) > Bud(T) THEN "transformed-column-variance-not-one" ELSE "ok")
             ELSE IF IAbs(ISumR([j \in 1..m |-> ColVar(j)], m) - S) > m * Bud(T) THEN "transformed-total-variance-not-one" ELSE "ok"
\* switched-off operations are really off: without centring/scaling the data is only scaled/shifted
OffClause == IF ~C.wm /\ ~C.ws /\ \E i \in 1..n, j \in 1..m : IAbs(T[i][j] - X[i][j] * S) > 1 THEN "switched-off-scaler-changes-data"
             ELSE IF C.wm /\ ~C.ws /\ \E i \in 1..n, j \in 1..m : IAbs(T[i][j] * WS - (X[i][j] * WS - SumWX(j)) * S) > WS THEN "centring-only-is-not-a-pure-shift"
             ELSE "ok"
RecClause == IF C.Xrec # <<>> /\ C.Xrec # X THEN "inverse_transform-does-not-undo-transform" ELSE "ok"
NewClause == IF \E k \in 1..Len(C.news) : LET q == C.news[k] IN
                    \E j \in 1..m : IAbs(q.tq[j] - (T[q.a][j] + T[q.b][j] - T[q.c][j])) > 4
             THEN "transform-of-new-data-is-not-the-fitted-affine-map" ELSE "ok"
CloseTo(A, sg) == \A i \in 1..n, j \in 1..m : IAbs(A[i][j] - sg * T[i][j]) <= 4
RouteClause == IF \E k \in 1..Len(C.routes) : LET r == C.routes[k] IN
                      IF r.sign THEN ~(CloseTo(r.tq, 1) \/ CloseTo(r.tq, -1)) ELSE ~CloseTo(r.tq, 1)
               THEN "route-result-differs" ELSE "ok"
First(s) == LET bad == {i \in 1..Len(s) : s[i] # "ok"} IN IF bad = {} THEN "ok" ELSE s[SetMin(bad)]
Verdict == IF C.raised /\ ~Rejectable THEN <<"rejected", "valid-data-rejected">>
           ELSE IF ~C.raised /\ MustRej THEN <<"rejected", "variance-below-tolerance-accepted">>
           ELSE IF C.raised THEN <<"ok">>
           \* outputs beyond the fixed-point range are legitimate only when the exact scale of the INPUT is tiny:
           \* some (x - mean)^2 exceeds 500^2 times the variance the data is divided by (all in units of WS^2)
           ELSE IF FMaxAbs(T) > 1000 * S THEN (IF LegitBig THEN <<"inconclusive", "magnitude">> ELSE <<"rejected", "transformed-data-out-of-range-or-not-finite">>)
           ELSE LET c == First(<<MeanClause, VarClause, OffClause, RecClause, NewClause, RouteClause>>) IN
                IF c = "ok" THEN <<"ok">> ELSE <<"rejected", c>>
Emit == PrintT(ToJson([k |-> "V", id |-> C.id, v |-> Verdict, ctx |-> [flags |-> <<C.wm, C.ws, C.cw>>, weighted |-> C.w # <<>>, rejected |-> C.raised]]))
==============================================================================
