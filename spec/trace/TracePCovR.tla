----------------------------- MODULE TracePCovR -----------------------------
(* PCovR law checking (C03, C04, C14) in fixed point on recorded fits.             *)
(* A case = one centred data set (X, Y integer / 4) and a list of fits of the real *)
(* PCovR class; every fit record carries the configuration (mixing a/8, k, space,  *)
(* solver, regressor route) and the projected outputs (latent coordinates T of the *)
(* training set, predictions, reconstruction, spectrum, projectors, ...).  The     *)
(* specification builds the modified Gram matrix  Kt = a/8 XX^T + (1-a/8) Yh Yh^T   *)
(* itself from the lattice X and the logged regressed targets Yh and states the    *)
(* DEFINING EQUATIONS; it never computes an eigenvector.  C.mode selects the group *)
(* of clauses ("C14" | "C03" | "C04").                                             *)
EXTENDS Cert, IntMat, FiniteSetsExt, TLC, Json, IOUtils
Cases == JsonDeserialize(IOEnv.TRACE_FILE)
VARIABLES tid
C == Cases[tid]
Init == tid \in 1..Len(Cases)
Next == UNCHANGED tid
Spec == Init /\ [][Next]_tid
X == [i \in 1..Len(C.X) |-> [j \in 1..Len(C.X[1]) |-> C.X[i][j] * (S \div 4)]]
Y == [i \in 1..Len(C.Y) |-> [j \in 1..Len(C.Y[1]) |-> C.Y[i][j] * (S \div 4)]]
n == Len(X)
m == Len(X[1])
F == C.fits
NF == Len(F)
Mag(M) == FMaxAbs(M) \div S + 1
GapOK(l, j) == j >= Len(l) \/ l[j] > l[j + 1] + l[1] \div 50 + 200
\* budget (units) for comparing two n x k matrices obtained through one product of inner size s
PB(s, A, B) == 4 * s * (Mag(A) + Mag(B) + 2)
ColEqSign(A, B, j, tol) == (\A i \in 1..Len(A) : FAbs(A[i][j] - B[i][j]) <= tol) \/ (\A i \in 1..Len(A) : FAbs(A[i][j] + B[i][j]) <= tol)
EqUpToSigns(A, B, k, tol) == \A j \in 1..k : ColEqSign(A, B, j, tol)
Kt(f) == LET XX == FMatMul(X, FTr(X))  YY == FMatMul(f.Yh, FTr(f.Yh)) IN
         [i \in 1..n |-> [j \in 1..n |-> (XX[i][j] * f.a + YY[i][j] * (8 - f.a)) \div 8]]
TLam(f) == [i \in 1..n |-> [j \in 1..f.k |-> FMul(f.T[i][j], f.lam[j])]]
(* ------------------------------ C14 ------------------------------ *)
Gram(f) == FMatMul(FTr(f.T), f.T)
C14Fit(f) ==
    LET bt == PB(m, X, f.pxt) IN
    IF ~Within(FMatMul(X, f.pxt), f.T, bt) THEN "transform-differs-from-X-times-projector"
    ELSE IF f.Xn # <<>> /\ ~Within(FMatMul([i \in 1..Len(f.Xn) |-> [j \in 1..m |-> f.Xn[i][j] * (S \div 4)]], f.pxt), f.Tn, bt) THEN "transform-of-new-data-differs-from-X-times-projector"
    ELSE IF ~Within(f.Yp, f.YpT, PB(m, X, f.pxy) + PB(f.k, f.T, f.pty)) THEN "predict(X)-differs-from-predict(T=transform(X))"
    ELSE IF f.Xn # <<>> /\ ~Within(f.Ypn, f.YpTn, PB(m, X, f.pxy) + PB(f.k, f.T, f.pty)) THEN "predict-of-new-data-differs-from-predict-via-latent"
    ELSE IF \E i, j \in 1..f.k : FAbs(Gram(f)[i][j] - (IF i = j THEN f.lam[i] ELSE 0)) > PB(n, f.T, f.T) + FAbs(f.lam[i]) \div 500 THEN "latent-coordinates-not-orthogonal-with-eigenvalue-norms"
    ELSE IF ~Within(f.T2, f.T, PB(m, f.ptx, f.pxt) * Mag(f.T) + 16) THEN "transform-of-inverse_transform-differs-from-T"
    ELSE IF ~Within(FMatMul(f.pxt, f.pty), f.pxy, PB(f.k, f.pxt, f.pty)) THEN "pxy-differs-from-pxt-times-pty"
    ELSE IF f.y1d /\ ~(f.pred_ndim = 1 /\ f.pxy_ndim = 1 /\ f.pty_ndim = 1) THEN "one-dimensional-y-gives-two-dimensional-output"
    ELSE "ok"
LX(f) == FFrob2(FSub(X, f.Xr))
LY(f) == FFrob2(FSub(Y, f.Yp))
NX == FFrob2(X)
NY == FFrob2(Y)
ScoreClause(f) == IF NX = 0 \/ NY = 0 THEN "ok"
                  ELSE IF FAbs(f.score) > 400 * S THEN "score-out-of-range-or-not-finite-for-non-zero-data"
                  ELSE IF FAbs(FMul(-f.score, FMul(NX, NY)) - (FMul(LX(f), NY) + FMul(LY(f), NX))) > 8 * (NX \div S + NY \div S + 4) * (n * m + 8) + FMul(NX, NY) \div 300
                       THEN "score-differs-from-minus-sum-of-relative-losses" ELSE "ok"
\* score with latent coordinates supplied by the caller (third argument): the losses of exactly these coordinates
ScoreTClause(f) == IF f.XrS = <<>> \/ NX = 0 \/ NY = 0 THEN "ok"
                   ELSE IF FAbs(f.scoreS) > 400 * S THEN "score-out-of-range-or-not-finite-for-non-zero-data"
                   ELSE LET lx == FFrob2(FSub(X, f.XrS))  ly == FFrob2(FSub(Y, f.YpS)) IN
                        IF FAbs(FMul(-f.scoreS, FMul(NX, NY)) - (FMul(lx, NY) + FMul(ly, NX))) > 8 * (NX \div S + NY \div S + 4) * (n * m + 8) + FMul(NX, NY) \div 300
                        THEN "score-with-supplied-latent-coordinates-differs-from-their-losses" ELSE "ok"
\* the same on data the model was not fitted on: score(Xn, Yn) = -(|Xn - Xr_n|^2/|Xn|^2 + |Yn - Yp_n|^2/|Yn|^2)
XnF(f) == [i \in 1..Len(f.Xn) |-> [j \in 1..m |-> f.Xn[i][j] * (S \div 4)]]
ScoreNewClause(f) == IF f.Yn = <<>> THEN "ok"
                     ELSE LET xn == XnF(f)  nx == FFrob2(xn)  ny == FFrob2(f.Yn)  lx == FFrob2(FSub(xn, f.Xrn))  ly == FFrob2(FSub(f.Yn, f.Ypn)) IN
                          IF nx <= 64 \/ ny <= 64 \/ nx > 400 * S \/ ny > 400 * S \/ FAbs(f.scoren) > 400 * S THEN "ok"
                          ELSE IF FAbs(FMul(-f.scoren, FMul(nx, ny)) - (FMul(lx, ny) + FMul(ly, nx))) > 8 * (nx \div S + ny \div S + 4) * (3 * m + 8) + FMul(nx, ny) \div 300 + FMul(FAbs(f.scoren), FMul(nx, ny)) \div 300
                               THEN "score-on-new-data-differs-from-minus-sum-of-relative-losses" ELSE "ok"
\* nestedness and monotone losses along k for the fits of one (space, mixing) group, full solver, ordered by k
Chain(g) == C.chains[g]
NestClause(g) == IF \E q \in 1..Len(Chain(g)) - 1 : LET f1 == F[Chain(g)[q]] f2 == F[Chain(g)[q + 1]] IN
                        (\A j \in 1..f1.k : GapOK(f2.lam, j)) /\ ~EqUpToSigns(f1.T, f2.T, f1.k, PB(m, X, f1.pxt) + 16)
                 THEN "components-for-k-are-not-the-first-k-of-k+1"
                 ELSE IF \E q \in 1..Len(Chain(g)) - 1 : LET f1 == F[Chain(g)[q]] f2 == F[Chain(g)[q + 1]] IN
                        LX(f2) > LX(f1) + 32 * n * m \/ LY(f2) > LY(f1) + 32 * n * m
                 THEN "training-loss-increases-with-k"
                 ELSE "ok"
First(s) == LET bad == {i \in 1..Len(s) : s[i] # "ok"} IN IF bad = {} THEN "ok" ELSE s[SetMin(bad)]
C14Clause == First([i \in 1..NF |-> C14Fit(F[i])] \o [i \in 1..NF |-> ScoreClause(F[i])] \o [i \in 1..NF |-> ScoreTClause(F[i])] \o [i \in 1..NF |-> ScoreNewClause(F[i])] \o [g \in 1..Len(C.chains) |-> NestClause(g)])
(* ------------------------------ C03 ------------------------------ *)
\* eigen-certificate of one fit:  Kt T = T Lam,  T^T T = Lam,  Lam decreasing, ev = lam/(n-1)
EigBud(f, K) == 4 * n * (Mag(K) + Mag(f.T) + 2) + FMaxAbs(TLam(f)) \div 400
EigFitK(f, K) == IF ~Within(FMatMul(K, f.T), TLam(f), EigBud(f, K)) THEN "latent-coordinates-are-not-eigenvectors-of-the-modified-Gram-matrix"
             ELSE IF \E j \in 1..f.k - 1 : f.lam[j] + 4 < f.lam[j + 1] THEN "spectrum-not-in-decreasing-order"
             ELSE IF \E j \in 1..f.k : FAbs(f.ev[j] * (n - 1) - f.lam[j]) > n + f.lam[j] \div 2000 THEN "explained-variance-differs-from-eigenvalue-over-n-1"
             ELSE "ok"
EigFit(f) == LET K == Kt(f) IN EigFitK(f, K)
\* top-k-ness through the Frobenius deflation bound: ||Kt||_F^2 - sum lam_i^2 <= (n-k) * lam_k^2 (+budget)
TopK(f) == LET K == Kt(f)  fk == FFrob2(K)  sl == FSumR([j \in 1..f.k |-> FMul(f.lam[j], f.lam[j])], f.k) IN
           IF fk - sl > (n - f.k) * FMul(f.lam[f.k], f.lam[f.k]) + 8 * n * n * (Mag(K) + 2) + fk \div 200 THEN "retained-eigenvalues-are-not-the-largest" ELSE "ok"
\* route registers: fits of one group share data, mixing, k and regressed targets; they must agree
Group(g) == C.groups[g]
\* precondition of the route law: the retained eigenvalues are distinct and separated from the rest (gap > 2 % of the largest)
Separated(f) == \A j \in 1..f.k : GapOK(f.lamfull, j)
\* predictions and the reconstruction depend on the retained SUBSPACE only: it is enough that the boundary behind the k-th
\* eigenvalue is separated, or that every non-zero eigenvalue is retained (components of zero weight contribute nothing:
\* their latent coordinates vanish and the projectors guard the division)
ZeroFrom(l, r) == \A j \in r..Len(l) : l[j] <= 64
SubspaceFixed(f) == GapOK(f.lamfull, f.k) \/ \E r \in 1..f.k : ZeroFrom(f.lamfull, r + 1) /\ GapOK(f.lamfull, r)
\* the compared quantities are direct outputs of the two fits (rounded to 1/S): routes may differ by float64 noise only, so
\* the budget is a few units plus 0.2 % of the largest entry - it does not grow with the size of any projector
RBud(M) == 48 + FMaxAbs(M) \div 500
RouteClause(g) == LET f0 == F[Group(g)[1]] IN
    IF \E q \in 2..Len(Group(g)) : LET f == F[Group(g)[q]] IN
          Separated(f0) /\ ~EqUpToSigns(f.T, f0.T, f0.k, RBud(f0.T)) THEN "latent-space-depends-on-the-route"
    ELSE IF \E q \in 2..Len(Group(g)) : LET f == F[Group(g)[q]] IN
          f.cmpY /\ (Separated(f0) \/ SubspaceFixed(f0)) /\ ~Within(f.Yp, f0.Yp, RBud(f0.Yp)) THEN "predictions-depend-on-the-route"
    ELSE IF \E q \in 2..Len(Group(g)) : LET f == F[Group(g)[q]] IN
          (Separated(f0) \/ SubspaceFixed(f0)) /\ ~Within(f.Xr, f0.Xr, RBud(f0.Xr)) THEN "reconstruction-depends-on-the-route"
    ELSE IF \E q \in 2..Len(Group(g)) : LET f == F[Group(g)[q]] IN
          \E j \in 1..f0.k : FAbs(f.lam[j] - f0.lam[j]) > 16 + f0.lam[j] \div 1000 THEN "spectrum-depends-on-the-route"
    ELSE "ok"
C03Clause == First([i \in 1..NF |-> EigFit(F[i])] \o [i \in 1..NF |-> TopK(F[i])] \o [g \in 1..Len(C.groups) |-> RouteClause(g)])
(* ------------------------------ C04 ------------------------------ *)
\* objective as a quantity to MAXIMISE: captured(B) = sum_j B_j^T Kt B_j for orthonormal columns B_j
Captured(K, B, k) == FSumR([j \in 1..k |-> LET b == FCol(B, j) IN FDot(b, FMatVec(K, b))], k)
SumLam(f) == FSumR([j \in 1..f.k |-> f.lam[j]], f.k)
OBud(f, K) == 8 * f.k * n * (Mag(K) + 3) + SumLam(f) \div 300
\* (i) coordinate subspaces: every k-subset of the sample axes
CoordBetter(f, K) == LET lim == SumLam(f) + OBud(f, K) IN \E B \in kSubset(f.k, 1..n) : FSumR([i \in 1..n |-> IF i \in B THEN K[i][i] ELSE 0], n) > lim
\* (ii) supplied orthonormal competitor bases (PCA subspace, regression subspace): verified, then evaluated
BasisBetter(f, K) == \E c \in 1..Len(f.comp) : LET B == f.comp[c] IN
                     IsOrthonormalCols(B, 4 * n + 8) /\ Captured(K, B, FNCols(B)) > SumLam(f) + OBud(f, K)
\* (iii) the fitted subspace rotated by rational Givens rotations in every sample coordinate plane
That(f) == f.That                                  \* orthonormal basis of span(T) (T Lam^-1/2), verified below
Angles == { <<3, 4, 5>>, <<4, 3, 5>>, <<12, 5, 13>>, <<399, 40, 401>>, <<399, -40, 401>>, <<3, -4, 5>> }
RotRows(B, p, r, g) == [i \in 1..Len(B) |-> [j \in 1..Len(B[1]) |->
                          IF i = p THEN (g[1] * B[p][j] - g[2] * B[r][j]) \div g[3]
                          ELSE IF i = r THEN (g[2] * B[p][j] + g[1] * B[r][j]) \div g[3] ELSE B[i][j]]]
RotBetter(f, K) == LET lim == SumLam(f) + OBud(f, K) IN \E p \in 1..n, r \in 1..n, g \in Angles : p < r /\ Captured(K, RotRows(That(f), p, r, g), f.k) > lim
OptFit(f) == LET K == Kt(f)  e == EigFitK(f, K) IN
             IF f.lam[f.k] <= 64 THEN "ok"       \* retained directions of zero weight: nothing to compare
             ELSE IF e # "ok" THEN e
             ELSE IF ~IsOrthonormalCols(That(f), 4 * n + 8) THEN "ok"
             ELSE IF CoordBetter(f, K) THEN "a-coordinate-subspace-has-a-smaller-objective"
             ELSE IF BasisBetter(f, K) THEN "the-PCA-or-regression-subspace-has-a-smaller-objective"
             ELSE IF RotBetter(f, K) THEN "a-rotation-of-the-fitted-subspace-has-a-smaller-objective"
             ELSE "ok"
\* end points.  mixing = 1: PCA.  Witness pcaV (m x k right singular vectors) is verified as an eigenbasis of X^T X with the
\* reported spectrum, scores are then computed by the specification itself.
\* kform = <<what PCA keeps, what PCovR keeps>> for the same request given as a variance fraction or as 'mle' (<<>>: not probed)
PcaFit(f) == IF f.a = 8 /\ f.kform # <<>> /\ f.kform[1] # f.kform[2] THEN "mixing-1-keeps-a-different-number-of-components-than-PCA"
             ELSE IF f.a # 8 \/ f.pcaV = <<>> \/ ~Separated(f) THEN "ok"
             ELSE LET G == FMatMul(FTr(X), X)  sc == FMatMul(X, f.pcaV) IN
                  IF ~IsEigen(G, f.pcaV, f.lam, 4 * m * (Mag(G) + 3) + FVMaxAbs(f.lam) \div 300) THEN "ok"   \* witness not usable
                  ELSE IF ~EqUpToSigns(f.T, sc, f.k, PB(m, X, f.pxt) + 64) THEN "mixing-1-differs-from-PCA"
                  ELSE IF ~Within(f.Xr, FMatMul(sc, FTr(f.pcaV)), 2 * PB(f.k, f.T, f.ptx) + 64) THEN "mixing-1-reconstruction-differs-from-PCA"
                  ELSE "ok"
\* mixing = 0 with at least as many components as targets and an unregularised regressor: predictions = the regression's.
\* The logged regressed targets Yh are first verified to BE the least-squares fit (Yh = X W, X^T (Y - Yh) = 0).
LrFit(f) == IF f.a # 0 \/ f.lrW = <<>> \/ f.k < Len(Y[1]) THEN "ok"
            ELSE IF ~Within(FMatMul(X, f.lrW), f.Yh, PB(m, X, f.lrW) + 16) THEN "ok"
            ELSE IF FMaxAbs(FMatMul(FTr(X), FSub(Y, f.Yh))) > PB(n, X, Y) + 64 THEN "ok"
            ELSE IF ~Within(f.Yp, f.Yh, PB(m, X, f.pxy) + 64 + FMaxAbs(f.Yh) \div 300) THEN "mixing-0-predictions-differ-from-linear-regression"
            ELSE "ok"
\* monotone losses along the mixing grid (fits of one chain ordered by increasing mixing)
MonoClause(g) == IF \E q \in 1..Len(Chain(g)) - 1 : LET f1 == F[Chain(g)[q]] f2 == F[Chain(g)[q + 1]] IN
                       LX(f2) > LX(f1) + 32 * n * m + LX(f1) \div 500 THEN "reconstruction-loss-increases-with-mixing"
                 \* the loss w.r.t. the raw targets is monotone when Yhat is the exact least-squares fit (then
                 \* |Y - P_T Y|^2 = |Y - Yhat|^2 + |Yhat - P_T Yhat|^2 and the second term is the objective's); C.monoY says so
                 ELSE IF C.monoY /\ \E q \in 1..Len(Chain(g)) - 1 : LET f1 == F[Chain(g)[q]] f2 == F[Chain(g)[q + 1]] IN
                       LY(f2) + 32 * n * m + LY(f1) \div 500 < LY(f1) THEN "regression-loss-decreases-with-mixing"
                 ELSE "ok"
C04Clause == First([i \in 1..NF |-> OptFit(F[i])] \o [i \in 1..NF |-> PcaFit(F[i])] \o [i \in 1..NF |-> LrFit(F[i])] \o [g \in 1..Len(C.chains) |-> MonoClause(g)])
(* ------------------------------ verdict ------------------------------ *)
\* the projectors can legitimately be large (small eigenvalues); the latent coordinates cannot: their squared norms are
\* eigenvalues of the modified Gram matrix, bounded by |X|^2 + |Yhat|^2 of the (small, bounded) inputs
TooBig == \E i \in 1..NF : FMaxAbs(F[i].pxt) > 120 * S \/ FMaxAbs(F[i].ptx) > 120 * S \/ FMaxAbs(F[i].pty) > 120 * S
TBig == \E i \in 1..NF : FMaxAbs(F[i].T) > 120 * S
Clause == IF C.raised THEN "valid-fit-raised"
          ELSE IF TBig THEN "latent-coordinates-out-of-range-or-not-finite"
          ELSE IF \E i \in 1..NF : F[i].wmax > 20000000 THEN "ill-posed"      \* the regressor's own weights explode (singular X, no regularisation)
          ELSE IF C.mode = "C03" THEN C03Clause          \* uses latent coordinates, spectrum, predictions and reconstructions only
          ELSE IF TooBig THEN "inconclusive"
          ELSE IF C.mode = "C14" THEN C14Clause ELSE C04Clause
Verdict == LET c == Clause IN IF c = "ok" THEN <<"ok">> ELSE IF c = "inconclusive" THEN <<"inconclusive", "magnitude">>
                             ELSE IF c = "ill-posed" THEN <<"inconclusive", "ill-posed-regression-of-the-supplied-regressor">> ELSE <<"rejected", c>>
Emit == PrintT(ToJson([k |-> "V", id |-> C.id, v |-> Verdict, ctx |-> [mode |-> C.mode, nfits |-> NF]]))
=============================================================================
