------------------------------- MODULE TraceCUR -------------------------------
(* C07: CUR / PCov-CUR select by leverage score on the orthogonalised residual.    *)
(* Orientation: the harness hands over A with ITEMS AS COLUMNS (A = X for feature  *)
(* selection, A = X^T for sample selection), so one specification covers both      *)
(* directions and the duality law.  Per greedy decision the trace carries the      *)
(* public residual matrix R (X_current_), the unexplained targets yres             *)
(* (y_current_), the score table pi the decision was based on, and the choice.     *)
(* Laws, all evaluated here in fixed point:                                        *)
(*  residual : Asel^T R = 0  and  A - R = Asel * Coef  (Coef: verified witness)    *)
(*             => R is A with the span of the selected items projected out         *)
(*  targets  : feature direction  Asel^T yres = 0, y - yres = Asel * c             *)
(*             sample direction   yres = y - A^T W,  W a min-norm least-squares    *)
(*             solution on the selected items only (normal equations verified)     *)
(*  scores   : with M = R^T R (CUR) or the PCovR-modified matrix built here from R *)
(*             and yres AS OF THE MOST RECENT REFRESH, and a verified complete     *)
(*             eigenbasis witness of M:  pi_j = sum over the top-k eigenvectors of *)
(*             their squared j-th entries; the choice is a maximiser over the      *)
(*             not-yet-selected items (ties within budget are behaviours)          *)
EXTENDS Cert, IntMat, TLC, Json, IOUtils
Cases == JsonDeserialize(IOEnv.TRACE_FILE)
VARIABLES tid
C == Cases[tid]
Init == tid \in 1..Len(Cases)
Next == UNCHANGED tid
Spec == Init /\ [][Next]_tid
A == [i \in 1..Len(C.A) |-> [j \in 1..Len(C.A[1]) |-> C.A[i][j] * S]]
NI == Len(C.A[1])                 \* number of items (columns)
NR == Len(C.A)
k == C.k
St == C.steps
Mag(M) == FMaxAbs(M) \div S + 1
Sel(t) == [i \in 1..t - 1 |-> St[i].c]          \* items selected before decision t
Cols(M, idx) == [i \in 1..Len(M) |-> [j \in 1..Len(idx) |-> M[i][idx[j]]]]
\* ---- residual law at decision t ----
ResClause(t) == LET s == Sel(t)  R == St[t].R IN
    IF Len(s) = 0 THEN (IF FMaxAbsDiff(R, A) > 2 THEN "initial-residual-is-not-the-input" ELSE "ok")
    ELSE LET As == Cols(A, s) IN
         IF FMaxAbs(FMatMul(FTr(As), R)) > 6 * NR * (Mag(A) + Mag(R) + 2) THEN "residual-not-orthogonal-to-the-selected-items"
         ELSE IF FMaxAbs(St[t].coef) > 200 * S THEN "ok"     \* witness out of range: nothing demanded
         ELSE IF ~Within(FMatMul(As, St[t].coef), FSub(A, R), 6 * Len(s) * (Mag(A) + Mag(St[t].coef) + 2) + 16) THEN "removed-part-is-not-in-the-span-of-the-selected-items"
         ELSE "ok"
\* ---- the matrix whose leading eigenvectors define the scores, from the residual as of refresh r ----
RR(r) == FMatMul(FTr(St[r].R), St[r].R)
Mat(r) == IF C.family = "cur" \/ C.mix = 8 THEN RR(r)
          ELSE IF C.pcov = "kernel" THEN      \* sample direction: a/8 R^T R + (1-a/8) yres yres^T  (items x items)
               LET G == RR(r)  YY == FMatMul(St[r].yres, FTr(St[r].yres)) IN
               [i \in 1..NI |-> [j \in 1..NI |-> (G[i][j] * C.mix + YY[i][j] * (8 - C.mix)) \div 8]]
          ELSE                                \* feature direction: a/8 C + (1-a/8) C^-1/2 R^T y y^T R C^-1/2,  C = R^T R.
               \* With the thin SVD R = U diag(sv) V^T:  C^-1/2 R^T = V U^T,  so  B = V (U^T yres)
               LET G == RR(r)  W == St[r].svd  B == FMatMul(W.V, FMatMul(FTr(W.U), St[r].yres))  BB == FMatMul(B, FTr(B)) IN
               [i \in 1..NI |-> [j \in 1..NI |-> (G[i][j] * C.mix + BB[i][j] * (8 - C.mix)) \div 8]]
\* thin-SVD witness of the residual: orthonormal factors, positive singular values, R = U diag(sv) V^T
ISqrtOK(r) == LET W == St[r].svd  R == St[r].R  rk == Len(W.sv) IN
              /\ rk >= 1 /\ \A i \in 1..rk : W.sv[i] > 64
              /\ IsOrthonormalCols(W.U, 4 * NR + 8) /\ IsOrthonormalCols(W.V, 4 * NI + 8)
              /\ Within(FMatMul([i \in 1..NR |-> [j \in 1..rk |-> FMul(W.U[i][j], W.sv[j])]], FTr(W.V)), R, 8 * rk * (Mag(R) + 3) + 16)
NeedISqrt == C.family = "pcov" /\ C.pcov = "covariance" /\ C.mix # 8
EigW(r) == St[r].eig                \* [V |-> items x items, lam |-> items] complete eigenbasis witness
EigOK(r) == LET Mx == Mat(r) IN IsEigen(Mx, EigW(r).V, EigW(r).lam, 8 * NI * (Mag(Mx) + 3) + FVMaxAbs(EigW(r).lam) \div 300)
GapOK(r) == k >= NI \/ EigW(r).lam[k] > EigW(r).lam[k + 1] + EigW(r).lam[1] \div 25 + 800
Pi(r) == [j \in 1..NI |-> FSumR([i \in 1..k |-> FMul(EigW(r).V[j][i], EigW(r).V[j][i])], k)]
\* most recent refresh before decision t (t-1 selections made): the decision index whose residual the scores stem from
Refresh(t) == IF C.re = 0 THEN 1 ELSE ((t - 1) \div C.re) * C.re + 1
ScoreTol == 400
ScoreClause(t) == LET r == Refresh(t)  U == (1..NI) \ RangeOf(Sel(t)) IN
    IF NeedISqrt /\ ~ISqrtOK(r) THEN "inconclusive"
    ELSE IF ~EigOK(r) THEN "badwitness"
    ELSE IF ~GapOK(r) THEN "inconclusive"
    ELSE LET P == Pi(r) IN
         IF St[t].c \notin U THEN "reselected-item"
         ELSE IF \E j \in U : P[j] > P[St[t].c] + ScoreTol THEN "choice-does-not-maximise-the-leverage-score-over-unselected-items"
         ELSE IF \E j \in U : FAbs(St[t].pi[j] - P[j]) > ScoreTol THEN "score-table-differs-from-leverage-of-top-k-vectors-as-of-last-refresh"
         ELSE "ok"
\* ---- unexplained targets ----
YClause(t) == LET s == Sel(t)  yr == St[t].yres IN
    IF C.family = "cur" \/ Len(s) = 0 \/ C.re = 0 THEN "ok"
    ELSE IF C.pcov = "covariance" THEN      \* items are features: y - P_sel y
         LET As == Cols(A, s) IN
         IF FMaxAbs(FMatMul(FTr(As), yr)) > 6 * NR * (Mag(A) + Mag(yr) + 2) THEN "unexplained-y-not-orthogonal-to-the-selected-features"
         ELSE IF FMaxAbs(St[t].ycoef) > 200 * S THEN "ok"
         ELSE IF ~Within(FMatMul(As, St[t].ycoef), FSub(C.y, yr), 6 * Len(s) * (Mag(A) + Mag(St[t].ycoef) + 2) + 16) THEN "explained-part-of-y-not-in-the-span-of-the-selected-features"
         ELSE "ok"
    ELSE                                    \* items are samples: y - X W, W least squares on the selected samples only
         LET As == Cols(A, s)  Xs == FTr(As)  Wm == St[t].ycoef  ys == [i \in 1..Len(s) |-> C.y[s[i]]] IN
         IF FMaxAbs(Wm) > 200 * S THEN "ok"
         ELSE IF FMaxAbs(FMatMul(As, FSub(FMatMul(Xs, Wm), ys))) > 8 * NR * Len(s) * (Mag(A) + 1) * (Mag(A) + Mag(Wm) + 2) THEN "ok"    \* witness not a least-squares solution
         ELSE IF ~Within(FSub(C.y, FMatMul(FTr(A), Wm)), yr, 6 * NR * (Mag(A) + Mag(Wm) + 2) + 16) THEN "unexplained-y-differs-from-y-minus-prediction-of-model-fitted-on-selected-samples"
         ELSE "ok"
StepClause(t) == LET a == ResClause(t) IN IF C.re # 0 /\ a # "ok" THEN a
                 ELSE LET b == YClause(t) IN IF b # "ok" THEN b ELSE ScoreClause(t)
\* final exposed residual (after the last selection)
FinalClause == IF C.re = 0 \/ C.final = <<>> THEN "ok"
               ELSE LET s == [i \in 1..Len(St) |-> St[i].c]  As == Cols(A, s) IN
                    IF FMaxAbs(FMatMul(FTr(As), C.final)) > 6 * NR * (Mag(A) + Mag(C.final) + 2) THEN "exposed-residual-not-orthogonal-to-the-selected-items" ELSE "ok"
\* route: a second recorded selection sequence that must coincide (duality, mixing = 1 => CUR) unless a tie was met
\* a decision is tied when two unselected items are within the score tolerance of the maximum
TiedAt(t) == LET r == Refresh(t)  U == (1..NI) \ RangeOf(Sel(t))  P == Pi(r)  mx == FSetMax({P[j] : j \in U}) IN
             Cardinality({j \in U : P[j] >= mx - 2 * ScoreTol}) > 1
FirstTie == LET T == {t \in 1..Len(St) : TiedAt(t)} IN IF T = {} THEN Len(St) + 1 ELSE SetMin(T)
RouteClause == IF C.route = <<>> THEN "ok"
               ELSE IF \E t \in 1..Len(St) : t < FirstTie /\ (t > Len(C.route) \/ C.route[t] # St[t].c) THEN "route-selects-differently" ELSE "ok"
All == [t \in 1..Len(St) |-> StepClause(t)]
Hard == {t \in 1..Len(St) : All[t] \notin {"ok", "inconclusive", "badwitness"}}
\* the orthogonaliser treats a column whose norm is below its tolerance as zero (documented): a selected residual column
\* within a factor four of that threshold (C.tolu = tolerance in the units of A, fixed point) makes the deflation undecided
ColNorm2(M, j) == FSumR([i \in 1..Len(M) |-> FMul(M[i][j], M[i][j])], Len(M))
TolDoubt == C.tolu > 0 /\ \E t \in 1..Len(St) : St[t].c \in 1..NI /\ ColNorm2(St[t].R, St[t].c) < FMul(4 * C.tolu, 4 * C.tolu)
Verdict == IF C.raised THEN <<"rejected", "valid-fit-raised">>
           ELSE IF TolDoubt THEN <<"inconclusive", "selected-column-within-the-zero-tolerance">>
           ELSE IF Hard # {} THEN <<"rejected", All[SetMin(Hard)], SetMin(Hard)>>
           ELSE IF \E t \in 1..Len(St) : All[t] = "badwitness" THEN <<"badwitness", "eigenbasis">>
           ELSE IF FinalClause # "ok" THEN <<"rejected", FinalClause>>
           ELSE IF \E t \in 1..Len(St) : All[t] = "inconclusive" THEN <<"inconclusive", "spectral-gap-or-witness">>
           ELSE IF RouteClause # "ok" THEN <<"rejected", RouteClause>>
           ELSE <<"ok">>
Emit == PrintT(ToJson([k |-> "V", id |-> C.id, v |-> Verdict, ctx |-> [family |-> C.family, pcov |-> C.pcov, re |-> C.re, kk |-> k]]))
===============================================================================
