------------------------------ MODULE TraceDCH ------------------------------
(* C19: recorded DirectionalConvexHull fits validated against DCHRef.             *)
(* Case: Pt (training samples <<y, x_low..>> as integers), sel (selected_idx_),    *)
(* per training sample: sgn / dq = sign and value*1024 of score_samples, hres =    *)
(* whether the high-dimensional residual is zero; queries with their outputs;      *)
(* optional base selection for the metamorphic variants (samples added strictly    *)
(* above; positive affine map of y with factor A).                                 *)
EXTENDS DCHRef, TLC, Json, IOUtils
Cases == JsonDeserialize(IOEnv.TRACE_FILE)
VARIABLES tid
C == Cases[tid]
Init == tid \in 1..Len(Cases)
Next == UNCHANGED tid
Spec == Init /\ [][Next]_tid
Pt == C.Pt
N == Len(Pt)
Q == 1024
GP == GeneralPosition(Pt, N)
V == Vertices(Pt, N)
Sel == RangeOf(C.sel)
Off(v) == Offset(Pt, N, Pt[v][1], XRow(Pt[v]))
\* reported distance dq (value*Q rounded) agrees with the exact rational offset <<num, den>>
Agrees(dq, r) == IAbs(dq * r[2] - r[1] * Q) <= r[2]
TrainClause ==
    IF \E v \in 1..N : C.sgn[v] < 0 THEN "training-sample-below-hull"
    ELSE IF \E v \in Sel : C.sgn[v] # 0 THEN "selected-sample-has-nonzero-distance"
    ELSE IF \E v \in Sel : ~C.hres[v] THEN "selected-sample-has-nonzero-high-dimensional-residual"
    ELSE IF \E v \in (1..N) \ Sel : C.sgn[v] # 1 THEN "unselected-sample-has-no-positive-distance"
    ELSE IF \E v \in 1..N : ~Agrees(C.dq[v], Off(v)) THEN "training-distance-differs-from-vertical-offset"
    ELSE "ok"
QueryClause ==
    IF \E i \in 1..Len(C.queries) :
          LET q == C.queries[i]  x == <<1>> \o q.x IN
          InFootprint(Pt, 1..N, x) /\
          LET o == Offset(Pt, N, q.y, x) IN
             \/ (o[1] > 0 /\ q.sgn # 1) \/ (o[1] < 0 /\ q.sgn # -1)
    THEN "query-distance-has-wrong-sign"
    ELSE IF \E i \in 1..Len(C.queries) :
          LET q == C.queries[i]  x == <<1>> \o q.x IN
          InFootprint(Pt, 1..N, x) /\ LET o == Offset(Pt, N, q.y, x) IN o[1] >= 0 /\ ~Agrees(q.dq, o)
    THEN "query-distance-differs-from-vertical-offset"
    \* the same queries evaluated in ONE call (dqb, sgnb): held to exactly what is demanded of a single query - the sign
    \* below the surface (its magnitude there is not part of the property and does depend on rounding inside the batch
    \* product), the vertical offset on or above it
    ELSE IF \E i \in 1..Len(C.queries) :
          LET q == C.queries[i]  x == <<1>> \o q.x IN
          InFootprint(Pt, 1..N, x) /\
          LET o == Offset(Pt, N, q.y, x) IN
             \/ (o[1] > 0 /\ q.sgnb # 1) \/ (o[1] < 0 /\ q.sgnb # -1) \/ (o[1] >= 0 /\ ~Agrees(q.dqb, o))
    THEN "distance-in-a-batch-differs-from-the-distance-of-the-sample-alone"
    ELSE "ok"
\* metamorphic: the base fit used the first C.nbase samples (the others were added strictly above), y' = A*y + B
BasePt == [i \in 1..C.nbase |-> [Pt[i] EXCEPT ![1] = (Pt[i][1] - C.B) \div C.A]]
AddedAbove == \A k \in (C.nbase + 1)..N : LET x == XRow(Pt[k]) P0 == [i \in 1..C.nbase |-> Pt[i]] IN
                 InFootprint(P0, 1..C.nbase, x) /\ Offset(P0, C.nbase, Pt[k][1], x)[1] > 0
MetaClause == IF C.nbase = 0 THEN "ok"
              ELSE IF ~AddedAbove THEN "ok"      \* precondition not met (decided exactly here): nothing to demand
              ELSE IF C.sel # C.basesel THEN "selection-changed-by-points-above-or-affine-map"
              ELSE IF \E v \in 1..C.nbase : C.dq[v] # 0 /\ IAbs(C.dq[v] - C.A * C.basedq[v]) > C.A + 1 THEN "distances-do-not-scale-with-the-affine-map"
              ELSE "ok"
Clause == IF C.raised THEN "fit-raised"
          ELSE IF ~GP THEN "inconclusive"
          ELSE IF Sel # V THEN "selection-differs-from-strictly-below-characterisation"
          ELSE IF C.sel # SortSet(Sel) THEN "selected_idx-not-sorted-unique"
          ELSE IF TrainClause # "ok" THEN TrainClause
          ELSE IF QueryClause # "ok" THEN QueryClause
          ELSE MetaClause
Verdict == LET c == Clause IN IF c = "ok" THEN <<"ok">> ELSE IF c = "inconclusive" THEN <<"inconclusive", "not-in-general-position">> ELSE <<"rejected", c>>
Emit == PrintT(ToJson([k |-> "V", id |-> C.id, v |-> Verdict, ctx |-> [kind |-> C.kind, nvert |-> Cardinality(V),
                       residual_not_finite |-> (\E v \in 1..N : v \in Sel /\ C.hnan[v] /\ \A u \in Sel : C.hres[u] \/ C.hnan[u])]]))
=============================================================================
