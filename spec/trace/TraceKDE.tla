-------------------------------- MODULE TraceKDE --------------------------------
(* C17 (part 1): SparseKDE is consistent with its Voronoi assignment and invariant   *)
(* under the symmetries of the problem.  Descriptors D, grid points G, cell: integer  *)
(* lattices; weights integers (normalised by the implementation).                     *)
(*  assignment : label of every descriptor is a nearest grid point under the          *)
(*               (minimum-image) squared distance, recomputed here exactly            *)
(*  weights    : grid weight * W = sum of the integer weights of its descriptors      *)
(*  bandwidths : finite, symmetric, positive definite (Sylvester: leading principal   *)
(*               minors > 0, on the matrices rescaled by a power of two)              *)
(*  score      : score = sum of score_samples                                         *)
(*  symmetries : log-densities at non-descriptor points unchanged by translation      *)
(*               (free space), consistent permutation, whole-cell shifts              *)
EXTENDS Fx, PeriodicRef, TLC, Json, IOUtils
Cases == JsonDeserialize(IOEnv.TRACE_FILE)
VARIABLES tid
C == Cases[tid]
Init == tid \in 1..Len(Cases)
Next == UNCHANGED tid
Spec == Init /\ [][Next]_tid
ND == Len(C.D)
NG == Len(C.G)
Dist(d, g) == PD2(C.D[d], C.G[g], C.cell)
Nearest(d) == ArgMinSet([g \in 1..NG |-> Dist(d, g)], 1..NG)
WS == ISum(C.w)
AssignClause == IF C.labels = <<>> THEN "ok"
                ELSE IF \E d \in 1..ND : C.labels[d] \notin Nearest(d) THEN "descriptor-not-assigned-to-a-nearest-grid-point"
                ELSE IF \E g \in 1..NG : C.gw[g] # ISumR([d \in 1..ND |-> IF C.labels[d] = g THEN C.w[d] ELSE 0], ND) THEN "grid-weight-differs-from-sum-of-assigned-descriptor-weights"
                ELSE IF ISum(C.gw) # WS THEN "grid-weights-do-not-total-one"
                ELSE "ok"
Dm == Len(C.G[1])
Minor1(H) == H[1][1]
Minor2(H) == FMul(H[1][1], H[2][2]) - FMul(H[1][2], H[2][1])
Minor3(H) == FMul(H[1][1], FMul(H[2][2], H[3][3]) - FMul(H[2][3], H[3][2]))
           - FMul(H[1][2], FMul(H[2][1], H[3][3]) - FMul(H[2][3], H[3][1]))
           + FMul(H[1][3], FMul(H[2][1], H[3][2]) - FMul(H[2][2], H[3][1]))
PD(H) == /\ Minor1(H) > 0 /\ (Dm < 2 \/ Minor2(H) > 0) /\ (Dm < 3 \/ Minor3(H) > 0)
Sym(H) == \A i, j \in 1..Dm : FAbs(H[i][j] - H[j][i]) <= 2
\* minors too close to the resolution are not decided
Resolved(H) == Minor1(H) > 64 /\ (Dm < 2 \/ FAbs(Minor2(H)) > 64) /\ (Dm < 3 \/ FAbs(Minor3(H)) > 64)
\* the property's proviso (the localisation reaches at least one other grid point): C.reach[g] is the share (fixed
\* point) of the localised weights used for grid point g's covariance that lies outside their largest entry, observed at
\* the module function _local_population; <<>> when it could not be observed.  A share of at least 2^-10 for every
\* grid point counts as reached; otherwise a non-finite bandwidth (0/0 covariance normalisation) is not decided.
Reached == C.reach # <<>> /\ \A g \in 1..Len(C.reach) : C.reach[g] >= 16
BwClause == IF ~C.finite THEN (IF Reached THEN "bandwidth-not-finite-although-the-localisation-reaches-other-grid-points" ELSE "inconclusive")
            ELSE IF \E g \in 1..NG : ~Sym(C.H[g]) THEN "bandwidth-not-symmetric"
            ELSE IF \E g \in 1..NG : Resolved(C.H[g]) /\ ~PD(C.H[g]) THEN "bandwidth-not-positive-definite"
            ELSE "ok"
Close(a, b) == FAbs(a - b) <= 8 + FMax2(FAbs(a), FAbs(b)) \div 2000
SumClause == IF FAbs(C.score - FSumR(C.ld, Len(C.ld))) > 4 * Len(C.ld) + FAbs(C.score) \div 4000 THEN "score-is-not-the-sum-of-score_samples" ELSE "ok"
\* a route whose log-densities are not finite differs from the (finite) original whenever the proviso is met
RouteBad == {r \in 1..Len(C.routes) : (~C.routes[r].finite /\ Reached) \/ (C.routes[r].finite /\ \E i \in 1..Len(C.ld) : ~Close(C.routes[r].ld[i], C.ld[i]))}
First(s) == LET bad == {i \in 1..Len(s) : s[i] # "ok"} IN IF bad = {} THEN "ok" ELSE s[SetMin(bad)]
\* symmetry laws presuppose a tie-free Voronoi assignment (a descriptor equidistant from two grid points is
\* assigned by index order / rounding, which permutations and image shifts legitimately change)
TieFree == /\ \A d \in 1..ND : Cardinality(Nearest(d)) = 1
           \* a grid weight exactly at the fpoints threshold is decided by the rounding of the weight sums
           /\ (C.fp = <<>> \/ C.gw = <<>> \/ \A g \in 1..NG : C.gw[g] * C.fp[2] # C.fp[1] * WS)
Verdict == IF C.raised THEN <<"rejected", "valid-input-raised">>
           ELSE IF C.finite /\ ~C.ldfinite THEN <<"rejected", "log-density-not-finite">>
           ELSE LET c == First(<<AssignClause, BwClause, SumClause>>) IN
                IF c = "inconclusive" THEN <<"inconclusive", "localisation-proviso">>
                ELSE IF c # "ok" THEN <<"rejected", c>>
                ELSE IF ~TieFree THEN <<"ok">>
                ELSE IF ~Reached /\ \E r \in 1..Len(C.routes) : ~C.routes[r].finite THEN <<"inconclusive", "localisation-proviso">>
                ELSE IF RouteBad # {} THEN <<"rejected", "log-density-changes-under-" \o C.routes[SetMin(RouteBad)].kind>>
                ELSE <<"ok">>
Emit == PrintT(ToJson([k |-> "V", id |-> C.id, v |-> Verdict,
                       ctx |-> [periodic |-> C.cell # <<>>, kinds |-> {C.routes[r].kind : r \in RouteBad},
                                unresolved |-> Cardinality({g \in 1..NG : ~Resolved(C.H[g])}), tiefree |-> TieFree, error |-> C.errclass]]))
=================================================================================
