---------------------------- MODULE TraceHistory ----------------------------
(* C08: greedy selection is history independent.  A case holds, for one selector  *)
(* class and one data set, the projected states of cold fits cold[k] (n_to_select *)
(* = k), the score tables seen along the longest cold fit, and one history: a     *)
(* warm-started chain, or a restart (FPS initialised with an already selected     *)
(* prefix).  The state reached by the history after each fit must equal the cold  *)
(* state for the same request: selection, stored data, scores and distance        *)
(* tables - up to the first decision at which two candidates are tied (within     *)
(* tol lattice units), from where only the common prefix is compared.             *)
EXTENDS GreedyRef, TLC, Json, IOUtils
Cases == JsonDeserialize(IOEnv.TRACE_FILE)
VARIABLES tid, l, verdict
vars == <<tid, l, verdict>>
C == Cases[tid]
N == C.n
Tol == C.tol
Long == C.cold[C.longest]                     \* the longest cold fit
TiedAt(s, t) == LET U == Unselected(N, s)  m == SetMax({t[j] : j \in U})
                IN Cardinality({j \in U : t[j] >= m - Tol}) > 1
RECURSIVE FirstTieTol(_)
FirstTieTol(i) ==   \* first tied greedy decision (position in the selection sequence), Len+1 if none
    IF i > Len(Long.idx) THEN Len(Long.idx) + 1
    ELSE IF C.tables[i] # <<>> /\ TiedAt(SubSeq(Long.idx, 1, i - 1), C.tables[i]) THEN i
    ELSE FirstTieTol(i + 1)
FT == FirstTieTol(1)
Close(a, b) == Len(a) = Len(b) /\ \A i \in 1..Len(a) : IAbs(a[i] - b[i]) <= Tol
PrefixEq(a, b, k) == LET m == IMin2(k, IMin2(Len(a), Len(b))) IN SubSeq(a, 1, m) = SubSeq(b, 1, m)
(* compare a state reached by a history with the cold state for the same request *)
Compare(st, cold) ==
    IF st.nsel # cold.nsel THEN "history-state-has-different-size-than-cold-fit"
    ELSE IF FT > Len(cold.idx) THEN        \* no tie along the way: full equality
         IF st.idx # cold.idx THEN "history-selection-differs-from-cold-fit"
         ELSE IF st.xsel # cold.xsel THEN "history-stored-X-differs-from-cold-fit"
         ELSE IF st.ysel # cold.ysel THEN "history-stored-y-differs-from-cold-fit"
         ELSE IF ~Close(st.table, cold.table) THEN "history-score-table-differs-from-cold-fit"
         ELSE IF ~Close(st.hsel, cold.hsel) THEN "history-select-distances-differ-from-cold-fit"
         ELSE IF st.support # cold.support THEN "history-support-differs-from-cold-fit"
         ELSE "ok"
    ELSE IF ~PrefixEq(st.idx, cold.idx, FT - 1) THEN "history-selection-differs-before-first-tie"
    ELSE "ok"
(* the first k selections do not depend on how many more are requested *)
PrefixClause(k) ==
    LET a == C.cold[k] IN
    IF a.nsel # k THEN "cold-fit-has-wrong-size"
    ELSE IF FT > k /\ a.idx # SubSeq(Long.idx, 1, k) THEN "prefix-depends-on-request"
    ELSE IF FT <= k /\ ~PrefixEq(a.idx, Long.idx, FT - 1) THEN "prefix-depends-on-request"
    ELSE "ok"
Steps == C.history          \* sequence of [req |-> k, st |-> state, raised |-> BOOLEAN]
Init == tid \in 1..Len(Cases) /\ l = 1 /\ verdict = <<"running">>
Check == /\ verdict = <<"running">> /\ l <= Len(Steps)
         /\ LET h == Steps[l]
                c == IF h.raised THEN "history-fit-raised"
                     ELSE IF h.req \notin DOMAIN C.cold THEN "ok"
                     ELSE LET p == PrefixClause(h.req) IN IF p # "ok" THEN p ELSE Compare(h.st, C.cold[h.req])
            IN verdict' = IF c = "ok" THEN verdict ELSE <<"rejected", c, l>>
         /\ l' = l + 1 /\ UNCHANGED tid
Accept == /\ verdict = <<"running">> /\ l = Len(Steps) + 1
          /\ verdict' = IF C.warm_unfitted_accepted THEN <<"rejected", "warm-start-on-unfitted-accepted", 0>> ELSE <<"ok">>
          /\ UNCHANGED <<tid, l>>
Next == Check \/ Accept
Spec == Init /\ [][Next]_vars
Done == verdict # <<"running">>
Emit == Done => PrintT(ToJson([k |-> "V", id |-> C.id, v |-> verdict, ctx |-> [tie |-> FT <= Len(Long.idx), kind |-> C.kind]]))
=============================================================================
