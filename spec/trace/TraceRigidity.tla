---------------------------- MODULE TraceRigidity ----------------------------
(* C20: prediction rigidities.  Training / test structures are lists of integer    *)
(* environment-feature matrices.  With M the per-structure means of the raw        *)
(* features and s^2 = sum over columns of mean(x^2) over all training environments *)
(*     LPR_i = 1 / ( x_i (M^T M + alpha s^2 I)^-1 x_i^T )                           *)
(* (square-root free form of the documented formula).  The specification builds    *)
(* A = M^T M + alpha s^2 I itself in fixed point from the integers, verifies the   *)
(* supplied inverse witness (A W = I) and evaluates the quadratic forms; outputs    *)
(* are given as reciprocals rq = round(S / value) and as lq = round(1024 log2 v).   *)
EXTENDS Cert, IntMat, FiniteSetsExt, TLC, Json, IOUtils
Cases == JsonDeserialize(IOEnv.TRACE_FILE)
VARIABLES tid
C == Cases[tid]
Init == tid \in 1..Len(Cases)
Next == UNCHANGED tid
Spec == Init /\ [][Next]_tid
Tr == C.train
Te == C.test
d == Len(Tr[1][1])
ColSum(M, j) == ISumR([i \in 1..Len(M) |-> M[i][j]], Len(M))
NAtoms == ISumR([a \in 1..Len(Tr) |-> Len(Tr[a])], Len(Tr))
Qsum == ISumR([a \in 1..Len(Tr) |-> ISumR([i \in 1..Len(Tr[a]) |-> IDot(Tr[a][i], Tr[a][i])], Len(Tr[a]))], Len(Tr))
MeanFx(M) == [j \in 1..d |-> (ColSum(M, j) * S) \div Len(M)]            \* structure mean, fixed point
Mfx == [a \in 1..Len(Tr) |-> MeanFx(Tr[a])]
S2fx == (Qsum * S) \div NAtoms
AlphaS2 == (C.alpha[1] * S2fx) \div C.alpha[2]
A == LET G == FMatMul(FTr(Mfx), Mfx) IN [i \in 1..d |-> [j \in 1..d |-> G[i][j] + (IF i = j THEN AlphaS2 ELSE 0)]]
W == C.Ainv
WTol == 4 * d * ((FMaxAbs(A) \div S) + 2) * ((FMaxAbs(W) \div S) + 2) + 32
Quad(x) == LET xf == [k \in 1..d |-> x[k] * S] IN FDot(xf, FMatVec(W, xf))
MaskX(x, c) == LET lo == ISumR([k \in 1..c - 1 |-> C.comp[k]], c - 1) IN [k \in 1..d |-> IF k > lo /\ k <= lo + C.comp[c] THEN x[k] ELSE 0]
\* budget of a quadratic form in units: the witness is rounded to 1/S and amplified by |x|^2
QBud(x) == LET mx == FVMaxAbs(x) + 1 IN 4 * d * d * mx * mx + 8 * d * mx * ((FMaxAbs(W) \div S) + 1) + 16
Agrees(rq, x) == LET e == Quad(x) IN IAbs(rq - e) <= QBud(x) + IAbs(e) \div 200
Conclusive(x) == LET e == Quad(x) IN e > 40 * QBud(x)          \* budget below 2.5 % of the value
AllTest == [a \in 1..Len(Te) |-> Te[a]]
LensClause == IF Len(C.lpr_rq) # Len(Te) THEN "number-of-output-structures-differs"
              ELSE IF \E a \in 1..Len(Te) : Len(C.lpr_rq[a]) # Len(Te[a]) THEN "environments-per-structure-differ"
              ELSE IF Len(C.lcpr_rq) # Len(Te) \/ \E a \in 1..Len(Te) : Len(C.lcpr_rq[a]) # Len(Te[a]) THEN "lcpr-partition-differs"
              ELSE IF Len(C.cpr_rq) # Len(Te) THEN "cpr-partition-differs"
              ELSE "ok"
\* reciprocals are logged as round(S / value): -1 marks a value that is not positive (or not a number); 0 is a positive value
\* beyond the fixed-point range (an unregularised covariance with the test environment in its null space)
PosClause == IF \E a \in 1..Len(Te) : \E i \in 1..Len(Te[a]) : C.lpr_rq[a][i] < 0 THEN "rigidity-not-positive"
             ELSE IF \E a \in 1..Len(Te) : \E i \in 1..Len(Te[a]), c \in 1..Len(C.comp) : C.lcpr_rq[a][i][c] < 0 THEN "component-wise-local-rigidity-not-positive"
             ELSE IF \E a \in 1..Len(Te) : \E c \in 1..Len(C.comp) : C.cpr_rq[a][c] < 0 THEN "component-wise-rigidity-not-positive"
             ELSE "ok"
LprClause == IF \E a \in 1..Len(Te) : \E i \in 1..Len(Te[a]) : Conclusive(Te[a][i]) /\ ~Agrees(C.lpr_rq[a][i], Te[a][i])
             THEN "LPR-differs-from-closed-form" ELSE "ok"
LcprClause == IF \E a \in 1..Len(Te) : \E i \in 1..Len(Te[a]), c \in 1..Len(C.comp) :
                   LET x == MaskX(Te[a][i], c) IN Conclusive(x) /\ ~Agrees(C.lcpr_rq[a][i][c], x)
              THEN "LCPR-differs-from-closed-form" ELSE "ok"
\* CPR uses the structure-mean feature vector; for one-environment structures it must equal the LCPR
OneEnvClause == IF \E a \in 1..Len(Te), c \in 1..Len(C.comp) : Len(Te[a]) = 1 /\ IAbs(C.cpr_lq[a][c] - C.lcpr_lq[a][1][c]) > 3
                THEN "CPR-of-one-environment-structure-differs-from-its-LCPR" ELSE "ok"
SingleCompClause == IF C.single_lq # <<>> /\ \E a \in 1..Len(Te) : \E i \in 1..Len(Te[a]) : IAbs(C.single_lq[a][i] - C.lpr_lq[a][i]) > 3
                    THEN "LCPR-with-one-component-differs-from-LPR" ELSE "ok"
RescaleClause == IF C.rescaled_lq # <<>> /\ \E a \in 1..Len(Te) : \E i \in 1..Len(Te[a]) : IAbs(C.rescaled_lq[a][i] - C.lpr_lq[a][i]) > 3
                 THEN "rigidity-changes-under-common-rescaling" ELSE "ok"
\* along the alpha grid (increasing) every LPR is non-decreasing
MonoClause == IF \E g \in 1..Len(C.grid_lq) - 1, a \in 1..Len(Te) : \E i \in 1..Len(Te[a]) : C.grid_lq[g + 1][a][i] < C.grid_lq[g][a][i] - 3
              THEN "rigidity-decreases-with-alpha" ELSE "ok"
\* rank: alpha > 0 makes A positive definite; alpha = 0: rank of the integer matrix of structure sums
RECURSIVE RankUpTo(_, _)
Msum == [a \in 1..Len(Tr) |-> [j \in 1..d |-> ColSum(Tr[a], j) * (6 \div Len(Tr[a]))]]
HasMinor(k) == \E R \in kSubset(k, 1..Len(Msum)), Cc \in kSubset(k, 1..d) :
                  LET r == SortSet(R) c == SortSet(Cc) IN Det([i \in 1..k |-> [j \in 1..k |-> Msum[r[i]][c[j]]]]) # 0
RankUpTo(k, m) == IF k > m THEN m ELSE IF HasMinor(k) THEN RankUpTo(k + 1, m) ELSE k - 1
Rank == RankUpTo(1, IMin2(d, Len(Msum)))
\* (apos = 1: a positive regulariser below the fixed-point resolution, e.g. 1e-11, recorded as alpha = 0)
RankClause == IF (C.alpha[1] > 0 \/ C.apos = 1) /\ C.rank_diff # 0 THEN "rank_diff-nonzero-for-positive-definite-matrix"
              ELSE IF C.alpha[1] = 0 /\ C.apos = 0 /\ C.rank_diff # d - Rank THEN "rank_diff-differs-from-dimension-minus-rank"
              ELSE "ok"
First(s) == LET bad == {i \in 1..Len(s) : s[i] # "ok"} IN IF bad = {} THEN "ok" ELSE s[SetMin(bad)]
Verdict == IF C.raised THEN <<"rejected", "valid-input-raised">>
           ELSE IF LensClause # "ok" THEN <<"rejected", LensClause>>
           ELSE LET c0 == First(<<PosClause, OneEnvClause, SingleCompClause, RescaleClause, MonoClause, RankClause>>) IN
           IF c0 # "ok" THEN <<"rejected", c0>>
           ELSE IF W = <<>> THEN <<"ok">>
           ELSE IF FMaxAbs(W) > 64 * S \/ FMaxAbs(A) > 2000 * S THEN <<"inconclusive", "magnitude">>
           ELSE IF ~IsInverse(A, W, WTol) THEN <<"badwitness", "inverse">>
           ELSE LET c1 == First(<<LprClause, LcprClause>>) IN IF c1 = "ok" THEN <<"ok">> ELSE <<"rejected", c1>>
NConcl == Cardinality({<<a, i>> \in (1..Len(Te)) \X (1..3) : i <= Len(Te[a]) /\ W # <<>> /\ FMaxAbs(W) <= 64 * S /\ Conclusive(Te[a][i])})
Emit == PrintT(ToJson([k |-> "V", id |-> C.id, v |-> Verdict, ctx |-> [conclusive_lpr |-> NConcl, alpha |-> C.alpha]]))
==============================================================================
