--------------------------- MODULE TraceGreedy ---------------------------
(* Trace validation of real selector objects against the reference semantics of  *)
(* GreedyRef (C01, parts of C08).  One trace = the life of one selector object:  *)
(* a sequence of fit calls, each recorded as  begin, step*, (post | raised).     *)
(* The score table of each decision is the environment's input (read through the *)
(* public score method); the specification decides what the resulting state must *)
(* be.  The spec is total: every event is consumed and the first failing clause  *)
(* is named.                                                                     *)
EXTENDS GreedyRef, TLC, Json, IOUtils
Traces == JsonDeserialize(IOEnv.TRACE_FILE)
VARIABLES tid, l, sel, req, thr, first, stopped, fitted, infit, nstart, verdict, ctx
vars == <<tid, l, sel, req, thr, first, stopped, fitted, infit, nstart, verdict, ctx>>
Tr == Traces[tid]
N == Tr.n
Ev == Tr.events
Tol == Tr.tol

Init == /\ tid \in 1..Len(Traces) /\ l = 1 /\ sel = <<>> /\ req = 0 /\ thr = <<"none">> /\ first = -1
        /\ stopped = FALSE /\ fitted = FALSE /\ infit = FALSE /\ nstart = 0 /\ verdict = <<"running">> /\ ctx = <<>>

Reject(c, x) == /\ verdict' = <<"rejected", c, l>> /\ ctx' = x
                /\ UNCHANGED <<sel, req, thr, first, stopped, fitted, infit, nstart>>
NoCtx == [none |-> TRUE]

Begin(e) ==
    LET ok == ValidRequest(e.nts, N) /\ Resolve(e.nts, N) >= 1 /\ Len(e.init) <= Resolve(e.nts, N)
    IN
    IF e.warm /\ ~fitted THEN
         IF e.raised THEN /\ UNCHANGED <<sel, req, thr, first, stopped, fitted, infit, nstart, verdict, ctx>>
         ELSE Reject("warm-start-on-unfitted-accepted", NoCtx)
    ELSE IF e.raised THEN
         IF ok /\ (~e.warm \/ Resolve(e.nts, N) >= Len(sel))
         THEN Reject("valid-request-rejected", [nts |-> e.nts[1], family |-> Tr.family])
         ELSE UNCHANGED <<sel, req, thr, first, stopped, fitted, infit, nstart, verdict, ctx>>
    ELSE IF ~ok THEN Reject("invalid-request-accepted", NoCtx)
    ELSE /\ sel' = IF e.warm THEN sel ELSE e.init
         /\ req' = Resolve(e.nts, N) /\ thr' = e.thr /\ stopped' = FALSE
         /\ first' = IF e.warm THEN first ELSE -1
         /\ nstart' = IF e.warm THEN Len(sel) ELSE Len(e.init)
         /\ infit' = TRUE /\ UNCHANGED <<fitted, verdict, ctx>>

Exhausted(s) == \A j \in Unselected(N, sel) : s[j] <= Tol
StepCtx(s) == [exhausted |-> Exhausted(s), family |-> Tr.family]
Step(e) ==
    LET s == e.score
        U == Unselected(N, sel)
    IN
    IF ~infit THEN Reject("step-outside-fit", NoCtx)
    ELSE IF Len(sel) >= req THEN Reject("decision-after-request-was-met", NoCtx)
    ELSE IF e.c = 0 THEN          \* the search stopped at this decision
         IF thr[1] = "none" THEN Reject("stop-without-threshold", NoCtx)
         ELSE IF U = {} THEN Reject("stop-with-nothing-left", NoCtx)
         ELSE LET m == SetMax({s[j] : j \in U})  f == IF first = -1 THEN m ELSE first IN
              IF ~MayStop(thr, f, m, Tol) THEN Reject("stopped-although-score-at-or-above-threshold", NoCtx)
              ELSE stopped' = TRUE /\ UNCHANGED <<sel, req, thr, first, fitted, infit, nstart, verdict, ctx>>
    ELSE IF e.c < 0 THEN Reject("step-did-not-add-exactly-one-selection", StepCtx(s))
    ELSE IF e.c \notin 1..N THEN Reject("index-out-of-range", NoCtx)
    ELSE IF e.c \in RangeOf(sel) THEN Reject("reselected-item", StepCtx(s))
    ELSE IF \E j \in U : s[j] > s[e.c] + Tol THEN Reject("not-argmax-of-unselected", StepCtx(s))
    ELSE LET f == IF first = -1 THEN s[e.c] ELSE first IN
         IF ~MayKeep(thr, f, s[e.c], Tol) THEN Reject("kept-score-below-threshold", NoCtx)
         ELSE /\ sel' = Append(sel, e.c)
              /\ first' = IF thr[1] = "none" THEN first ELSE f
              /\ UNCHANGED <<req, thr, stopped, fitted, infit, nstart, verdict, ctx>>

Post(e) ==
    LET c == ConsistentClause(N, sel, req, stopped, e.p) IN
    IF ~infit THEN Reject("post-outside-fit", NoCtx)
    ELSE IF c # "ok" THEN Reject(c, [stopped |-> stopped, warm |-> e.warm, family |-> Tr.family,
                                     \* shape of the recorded truncation finding: everything is right except
                                     \* that the index vector is cut at the loop counter of this fit
                                     idxCutAtLoopCounter |-> (e.p.nsel = Len(sel) /\ Len(sel) - nstart >= 0 /\ Len(sel) - nstart <= Len(sel)
                                                              /\ e.p.idx = SubSeq(sel, 1, Len(sel) - nstart))])
    ELSE /\ fitted' = TRUE /\ infit' = FALSE
         /\ UNCHANGED <<sel, req, thr, first, stopped, nstart, verdict, ctx>>

Raised(e) ==      \* the fit raised after it had started selecting
    Reject("fit-raised-midway", [family |-> Tr.family, nts |-> e.nts])

Consume == /\ verdict = <<"running">> /\ l <= Len(Ev)
           /\ LET e == Ev[l] IN
              CASE e.a = "begin"  -> Begin(e)
                [] e.a = "step"   -> Step(e)
                [] e.a = "post"   -> Post(e)
                [] e.a = "raised" -> Raised(e)
           /\ l' = l + 1 /\ UNCHANGED tid
Accept == /\ verdict = <<"running">> /\ l = Len(Ev) + 1
          /\ verdict' = IF infit THEN <<"rejected", "trace-ends-inside-fit", l>> ELSE <<"ok">>
          /\ UNCHANGED <<tid, l, sel, req, thr, first, stopped, fitted, infit, nstart, ctx>>
Next == Consume \/ Accept
Spec == Init /\ [][Next]_vars

(* every reachable trace state satisfies the C01 state invariant of the reference *)
RefInv == verdict = <<"running">> => (Distinct(sel) /\ InRange(sel, N) /\ Len(sel) <= IMax2(req, Len(sel)))
Done == verdict # <<"running">>
Emit == Done => PrintT(ToJson([k |-> "V", id |-> Tr.id, v |-> verdict, ctx |-> ctx]))
==========================================================================
