------------------------------- MODULE TraceKDEMix -------------------------------
(* C17 (part 2): score_samples equals the logarithm of the documented mixture.        *)
(* For every query x and grid point j the specification evaluates the Mahalanobis      *)
(* distance m_j = (x - g_j)^T H_j^-1 (x - g_j) (minimum image with a cell) and forms    *)
(*    m_j >  kdecut^2 : one grid-level term   ln w_j^grid - (nk_j + m_j)/2              *)
(*    m_j <= kdecut^2 : one term per descriptor d of cell j (d # x)                     *)
(*                       ln w_d - (nk_j + (d - x)^T H_j^-1 (d - x))/2                   *)
(* with nk_j = D ln(2 pi) + ln det H_j.  The identity checked is                        *)
(*    sum over all terms of exp(term - score(x)) = 1     (every exponent <= 0)          *)
(* evaluated with the table-driven exp of ExpTab.  H_j^-1, ln det H_j, ln w are        *)
(* WITNESSES verified here first (H W = I; exp(-ln det) det = 1; exp(ln w) = w).        *)
EXTENDS ExpTab, TLC, Json, IOUtils
Cases == JsonDeserialize(IOEnv.TRACE_FILE)
VARIABLES tid
C == Cases[tid]
Init == tid \in 1..Len(Cases)
Next == UNCHANGED tid
Spec == Init /\ [][Next]_tid
Dm == C.dim
NG == Len(C.G)
ND == Len(C.D)
LN2PI == 30112                               \* ln(2 pi) * 2^14
HUGE == 1000000000
WrapFx(d, L) == LET r == ((d % L) + L) % L IN IF 2 * r > L THEN r - L ELSE r
Diff(a, b) == [k \in 1..Dm |-> IF C.cell = <<>> THEN a[k] - b[k] ELSE WrapFx(a[k] - b[k], C.cell[k])]
QuadSafe(v, M) == LET t == FMatVec(M, v) IN
                  IF ((FVMaxAbs(t) \div S) + 1) * ((FVMaxAbs(v) \div S) + 1) * Dm > 30000 THEN HUGE ELSE FDot(v, t)
Det(M) == IF Dm = 1 THEN M[1][1]
          ELSE IF Dm = 2 THEN FMul(M[1][1], M[2][2]) - FMul(M[1][2], M[2][1])
          ELSE FMul(M[1][1], FMul(M[2][2], M[3][3]) - FMul(M[2][3], M[3][2]))
             - FMul(M[1][2], FMul(M[2][1], M[3][3]) - FMul(M[2][3], M[3][1]))
             + FMul(M[1][3], FMul(M[2][1], M[3][2]) - FMul(M[2][2], M[3][1]))
\* ---- witness verification ----
InvOK(j) == FMaxAbs(C.Hinv[j]) <= 100 * S /\ FMaxAbs(C.H[j]) <= 100 * S
            /\ FMaxAbsDiff(FMatMul(C.H[j], C.Hinv[j]), FEye(Dm)) <= 8 * Dm * ((FMaxAbs(C.H[j]) \div S) + 1) * ((FMaxAbs(C.Hinv[j]) \div S) + 1) + 64
Pow(b, e) == IF e = 1 THEN b ELSE IF e = 2 THEN b * b ELSE b * b * b
DetSafe(M) == 6 * Pow((FMaxAbs(M) \div S) + 1, Dm) < 100000
LogDetOK(j) == LET ld == C.logdet[j] IN
               IF ~DetSafe(C.H[j]) \/ ~DetSafe(C.Hinv[j]) THEN FALSE ELSE
               IF ld >= 0 THEN FAbs(FMul(ExpNeg(ld), Det(C.H[j])) - S) <= S \div 64
               ELSE FAbs(FMul(ExpNeg(-ld), Det(C.Hinv[j])) - S) <= S \div 64
\* descriptor and grid weights of the DOCUMENTED mixture come from the inputs, not from the estimator: the caller's integer
\* weights C.wi normalised to total one, and their sums over the Voronoi cells (labels are checked by TraceKDE)
RECURSIVE WSumUpTo(_, _)
WSumUpTo(k, j) == IF k = 0 THEN 0 ELSE (IF j = 0 \/ C.labels[k] = j THEN C.wi[k] ELSE 0) + WSumUpTo(k - 1, j)
WTot == WSumUpTo(ND, 0)
WFx(d) == (C.wi[d] * S) \div WTot
GwFx(j) == (WSumUpTo(ND, j) * S) \div WTot
\* nlw = -ln w >= 0
LnOK(wv, nlw) == nlw >= 0 /\ FAbs(ExpNeg(nlw) - wv) * 64 <= wv + 64
WitnessesOK == /\ \A j \in 1..NG : InvOK(j) /\ LogDetOK(j) /\ (GwFx(j) < 16 \/ LnOK(GwFx(j), C.nlgw[j]))
               /\ \A d \in 1..ND : LnOK(WFx(d), C.nlw[d])
NK(j) == Dm * LN2PI + C.logdet[j]
\* ---- the documented mixture for query i: set of <<tag, exponent deficit u = score - term>> ----
NearCut(m) == FAbs(m - C.kdecut) <= 64 + C.kdecut \div 200
Terms(i) == LET x == C.Q[i]  sc == C.score[i] IN
   UNION { LET m == QuadSafe(Diff(x, C.G[j]), C.Hinv[j]) IN
           IF m > C.kdecut THEN (IF GwFx(j) < 16 \/ m = HUGE THEN {} ELSE { <<j, 0, sc + C.nlgw[j] + (NK(j) + m) \div 2>> })
           ELSE { LET q == QuadSafe(Diff(C.D[d], x), C.Hinv[j]) IN <<j, d, IF q = HUGE THEN HUGE ELSE sc + C.nlw[d] + (NK(j) + q) \div 2>>
                  : d \in {d \in 1..ND : C.labels[d] = j /\ C.D[d] # x} }
         : j \in 1..NG }
\* precision: an entry of the inverse bandwidth is known to one unit (2^-14), so a Mahalanobis distance is known to about
\* Dm^2 |x - g|^2 units; a cell that can matter (distance below 400) but whose distance is not known to 0.02 leaves the query
\* undecided (strongly anisotropic bandwidths with the query far along the wide direction)
Coarse(i, j) == LET dl == Diff(C.Q[i], C.G[j])  m == QuadSafe(dl, C.Hinv[j]) IN
                m # HUGE /\ m < 400 * S /\ Dm * Dm * (FDot(dl, dl) \div S) > 330
Ambiguous(i) == \E j \in 1..NG : (LET m == QuadSafe(Diff(C.Q[i], C.G[j]), C.Hinv[j]) IN m # HUGE /\ NearCut(m)) \/ Coarse(i, j)
RECURSIVE SumT(_)
SumT(T) == IF T = {} THEN 0 ELSE LET t == CHOOSE t \in T : TRUE IN
           (IF t[3] = HUGE \/ t[3] > 300 * S THEN 0 ELSE IF t[3] < 0 THEN S ELSE ExpNeg(t[3])) + SumT(T \ {t})
\* a single term larger than the total by more than 3 % is already a contradiction
TermAbove(i) == \E t \in Terms(i) : t[3] # HUGE /\ t[3] < -(S \div 32)
MixClause(i) == IF FAbs(C.score[i]) > 60 * S THEN "ok"          \* outside the resolved range: not decided
                ELSE IF Ambiguous(i) THEN "ok"
                ELSE IF TermAbove(i) THEN "a-mixture-term-exceeds-the-reported-density"
                ELSE IF FAbs(SumT(Terms(i)) - S) > S \div 32 + 2 * Cardinality(Terms(i)) THEN "score_samples-differs-from-the-log-of-the-documented-mixture"
                ELSE "ok"
Bad == {i \in 1..Len(C.Q) : MixClause(i) # "ok"}
Decided == Cardinality({i \in 1..Len(C.Q) : FAbs(C.score[i]) <= 60 * S /\ ~Ambiguous(i)})
Verdict == IF ~WitnessesOK THEN <<"inconclusive", "witness-out-of-range">>
           ELSE IF Bad # {} THEN <<"rejected", MixClause(CHOOSE i \in Bad : TRUE)>>
           ELSE <<"ok">>
Emit == PrintT(ToJson([k |-> "V", id |-> C.id, v |-> Verdict, ctx |-> [decided |-> IF WitnessesOK THEN Decided ELSE 0, periodic |-> C.cell # <<>>]]))
==================================================================================
