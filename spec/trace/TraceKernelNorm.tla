--------------------------- MODULE TraceKernelNorm ---------------------------
(* C12: kernel centring / normalisation = centring / scaling in feature space.    *)
(* Kernels are built by the harness from explicit INTEGER features Phi (train),    *)
(* Psi (test) and integer weights; the specification computes the feature-space   *)
(* result exactly in rationals:  U_i = W*Phi_i - sum_k w_k Phi_k  (W = sum w),     *)
(*   centred/normalised kernel (i,j) = n * U_i.U_j / sum_k |U_k|^2                 *)
(* and compares it with the implementation's outputs (Kq = round(K' * SQ)).        *)
(* Sparse variant: column means of the transformed block vanish and the centred    *)
(* Nystrom kernel has trace n, with a verified pseudo-inverse witness of K_MM.     *)
EXTENDS Cert, IntMat, TLC, Json, IOUtils
Cases == JsonDeserialize(IOEnv.TRACE_FILE)
VARIABLES tid
C == Cases[tid]
Init == tid \in 1..Len(Cases)
Next == UNCHANGED tid
Spec == Init /\ [][Next]_tid
SQ == 1024
Phi == C.Phi
n == Len(Phi)
d == Len(Phi[1])
w == IF C.w = <<>> THEN [i \in 1..n |-> 1] ELSE C.w
WS == ISum(w)
SumW == [k \in 1..d |-> ISumR([i \in 1..n |-> w[i] * Phi[i][k]], n)]
U(v) == [k \in 1..d |-> WS * v[k] - (IF C.wc THEN SumW[k] ELSE 0)]
TrN == ISumR([i \in 1..n |-> IDot(U(Phi[i]), U(Phi[i]))], n)
\* expected kernel entry as a rational <<num, den>>
Expected(a, b) == IF C.wt THEN <<n * IDot(U(a), U(b)), TrN>> ELSE <<IDot(U(a), U(b)), WS * WS>>
AgreesQ(kq, r) == IAbs(kq * r[2] - r[1] * SQ) <= r[2] + IAbs(r[1]) \div 100000
Degenerate == C.wt /\ TrN = 0
TrainClause == IF \E i, j \in 1..n : ~AgreesQ(C.Ktrain[i][j], Expected(Phi[i], Phi[j])) THEN "train-kernel-differs-from-feature-space-result" ELSE "ok"
TestClause == IF \E a \in 1..Len(C.Psi), j \in 1..n : ~AgreesQ(C.Ktest[a][j], Expected(C.Psi[a], Phi[j])) THEN "test-kernel-differs-from-feature-space-result" ELSE "ok"
TraceClause == IF C.wt /\ IAbs(ISumR([i \in 1..n |-> C.Ktrain[i][i]], n) - n * SQ) > n THEN "transformed-train-kernel-trace-not-n" ELSE "ok"
FTClause == IF C.Kft # <<>> /\ \E i, j \in 1..n : IAbs(C.Kft[i][j] - C.Ktrain[i][j]) > 1 THEN "fit_transform-differs-from-fit-then-transform" ELSE "ok"
\* reported scale_ = trace(centred K)/n :  scale_q * WS^2 * n  ~  TrN * SQ
ScaleClause == IF C.wt /\ IAbs(C.scaleq * WS * WS * n - TrN * SQ) > WS * WS * n + TrN \div 100000 THEN "scale_-differs-from-centred-trace-over-n"
               ELSE IF ~C.wt /\ C.scaleq # SQ THEN "scale_-not-one-without-trace-scaling" ELSE "ok"
First(s) == LET bad == {i \in 1..Len(s) : s[i] # "ok"} IN IF bad = {} THEN "ok" ELSE s[SetMin(bad)]
DenseVerdict == IF Degenerate THEN <<"inconclusive", "zero-trace">>
                ELSE IF C.raised THEN <<"rejected", "valid-kernel-rejected">>
                ELSE LET c == First(<<TrainClause, TestClause, TraceClause, FTClause, ScaleClause>>) IN
                     IF c = "ok" THEN <<"ok">> ELSE <<"rejected", c>>
(* ---- sparse variant: outputs in Fx (scale S); T = transform(Knm), P = pinv witness of Kmm ---- *)
T == C.T
Kmm == C.Kmm
PW == C.P
ColMean(j) == ISumR([i \in 1..n |-> w[i] * T[i][j]], n)
NysTrace == FTrace(FMatMul(FMatMul(T, PW), FTr(T)))
SBud == 8 * n * (ProdBudget(Len(Kmm), FMaxAbs(T), FMaxAbs(PW)) + 2) * ((FMaxAbs(T) \div S) + 1)
\* centred Nystrom trace of the INPUT block (the quantity the implementation divides by), from the logged integer kernel
Kin == C.Knmq
InMean(j) == ISumR([i \in 1..n |-> w[i] * Kin[i][j]], n) \div WS
Kcin == [i \in 1..n |-> [j \in 1..Len(Kmm) |-> Kin[i][j] - (IF C.wc THEN InMean(j) ELSE 0)]]
InTrace == FTrace(FMatMul(FMatMul(Kcin, PW), FTr(Kcin)))
InBud == 8 * n * (ProdBudget(Len(Kmm), FMaxAbs(Kcin), FMaxAbs(PW)) + 2) * ((FMaxAbs(Kcin) \div S) + 1)
SparseVerdict ==
    IF C.raised THEN <<"rejected", "valid-kernel-rejected">>
    ELSE IF FMaxAbs(PW) > 200 * S \/ FMaxAbs(Kmm) > 200 * S \/ FMaxAbs(Kin) > 200 * S THEN <<"inconclusive", "magnitude">>      \* inputs / witness only
    ELSE IF ~IsPInvB(Kmm, PW) THEN <<"badwitness", "pinv">>
    ELSE IF C.wt /\ InTrace <= InBud + (n * S) \div 256 THEN <<"inconclusive", "zero-trace">>        \* scale below 1/16: nothing to normalise reliably
    ELSE IF ~C.finite THEN <<"rejected", "transformed-kernel-not-finite">>
    ELSE IF FMaxAbs(T) > 200 * 16 * S THEN <<"rejected", "transformed-kernel-out-of-range">>
    ELSE IF FMaxAbs(T) > 200 * S THEN <<"inconclusive", "magnitude">>
    ELSE IF C.wc /\ \E j \in 1..Len(Kmm) : IAbs(ColMean(j)) > WS + n THEN <<"rejected", "transformed-column-mean-not-zero">>
    ELSE IF C.wt /\ C.trpos /\ SBud * 20 > n * S THEN <<"inconclusive", "budget">>
    ELSE IF C.wt /\ C.trpos /\ IAbs(NysTrace - n * S) > SBud THEN <<"rejected", "centred-nystrom-trace-not-n">>
    ELSE IF ~C.wt /\ ~C.wc /\ T # C.Knmq THEN <<"rejected", "switched-off-centerer-changes-kernel">>
    ELSE IF C.Tft # <<>> /\ FMaxAbsDiff(C.Tft, T) > 1 THEN <<"rejected", "fit_transform-differs-from-fit-then-transform">>
    ELSE <<"ok">>
Verdict == IF C.kind = "sparse" THEN SparseVerdict ELSE DenseVerdict
Emit == PrintT(ToJson([k |-> "V", id |-> C.id, v |-> Verdict, ctx |-> [kind |-> C.kind, wc |-> C.wc, wt |-> C.wt, weighted |-> C.w # <<>>]]))
==============================================================================
