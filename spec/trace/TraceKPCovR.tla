----------------------------- MODULE TraceKPCovR -----------------------------
(* C05: KernelPCovR.  Kernel VALUES are logged (raw blocks K_NN, K_VN, K_VV from   *)
(* the kernel function, which is environment); everything the property states about *)
(* them is evaluated here in fixed point:                                           *)
(*  - centring / scaling of the blocks in feature space (center=True), done by the  *)
(*    specification from the raw blocks (weighted-mean law of C12, uniform weights) *)
(*  - eigen-certificate of the latent coordinates T_N w.r.t. the modified kernel    *)
(*    Kt = a/8 K + (1-a/8) Yh Yh^T  (Yh = K W, W = logged dual coefficients of   *)
(*    the regressor):  Kt T = T diag(|T_j|^2),  T^T T diagonal                                *)
(*  - the documented score  -( Tr[K_VV - 2 K_VN w + w^T K_NN w]/Tr K_VV             *)
(*                             + |Y - y|^2/|Y|^2 ),  w = T_N (T_N^T T_N)^-1 T_V^T,   *)
(*    with a verified witness for the inverse, for held-out sets of every size      *)
(*  - route registers: linear kernel = sample-space PCovR with the equivalent ridge;*)
(*    named kernel = precomputed; center=True = explicit KernelNormalizer; kernel   *)
(*    PCA limit.                                                                    *)
EXTENDS Cert, IntMat, TLC, Json, IOUtils
Cases == JsonDeserialize(IOEnv.TRACE_FILE)
VARIABLES tid
C == Cases[tid]
Init == tid \in 1..Len(Cases)
Next == UNCHANGED tid
Spec == Init /\ [][Next]_tid
N == Len(C.KNN)
k == C.k
Mag(M) == FMaxAbs(M) \div S + 1
PB(s, A, B) == 4 * s * (Mag(A) + Mag(B) + 2)
RowMean(M, i) == FSumR(M[i], Len(M[i])) \div Len(M[i])
\* feature-space centring of a block with training columns: K - 1 colmean^T - rowmean 1^T + all
ColMeanN == [j \in 1..N |-> FSumR([i \in 1..N |-> C.KNN[i][j]], N) \div N]
AllMean == FSumR(ColMeanN, N) \div N
CentreCols(M) == [i \in 1..Len(M) |-> [j \in 1..N |-> M[i][j] - ColMeanN[j] - RowMean(M, i) + AllMean]]
KNNc0 == CentreCols(C.KNN)
Scale == FTrace(KNNc0) \div N
ScaleOK == ~C.center \/ (Scale > 64 /\ FAbs(FMul(Scale, C.iscale) - S) <= 8 + C.iscale \div 2000)
Sc(M) == IF C.center THEN [i \in 1..Len(M) |-> [j \in 1..Len(M[1]) |-> FMul(M[i][j], C.iscale)]] ELSE M
KNN == IF C.center THEN Sc(KNNc0) ELSE C.KNN
KVN(h) == IF C.center THEN Sc(CentreCols(h.KVN)) ELSE h.KVN
\* validation-validation block centred with the TRAINING mean (through K_VN)
KVV(h) == IF ~C.center THEN h.KVV
          ELSE LET V == Len(h.KVV) IN Sc([i \in 1..V |-> [j \in 1..V |-> h.KVV[i][j] - RowMean(h.KVN, i) - RowMean(h.KVN, j) + AllMean]])
T == C.TN
Lam == [j \in 1..k |-> FDot(FCol(T, j), FCol(T, j))]
\* regressed targets on the training set = K W with the logged dual coefficients (K as the model sees it)
Yh == FMatMul(KNN, C.W)
Kt == LET YY == FMatMul(Yh, FTr(Yh)) IN [i \in 1..N |-> [j \in 1..N |-> (KNN[i][j] * C.a + YY[i][j] * (8 - C.a)) \div 8]]
TLam == [i \in 1..N |-> [j \in 1..k |-> FMul(T[i][j], Lam[j])]]
EigClause == LET K == Kt  bud == 4 * N * (Mag(K) + Mag(T) + 2) * (Mag(T) + 1) + FMaxAbs(TLam) \div 300 IN
             IF ~Within(FMatMul(K, T), TLam, bud) THEN "latent-coordinates-are-not-eigenvectors-of-the-modified-kernel"
             ELSE IF \E i, j \in 1..k : i # j /\ FAbs(FDot(FCol(T, i), FCol(T, j))) > PB(N, T, T) + FMax2(Lam[i], Lam[j]) \div 300 THEN "latent-coordinates-not-orthogonal"
             ELSE "ok"
\* documented score on one held-out set h
G == C.Ginv                                   \* witness for (T_N^T T_N)^-1
GOK == IsInverse(FMatMul(FTr(T), T), G, 8 * k * (Mag(FMatMul(FTr(T), T)) + 1) * (Mag(G) + 1) + 64)
ScoreOf(h) == LET w == FMatMul(FMatMul(T, G), FTr(h.TV))                 \* N x V
                  kvv == KVV(h)  kvn == KVN(h)
                  num == FTrace(kvv) - 2 * FTrace(FMatMul(kvn, w)) + FTrace(FMatMul(FTr(w), FMatMul(KNN, w)))
                  ly == FFrob2(FSub(h.Y, h.yp))  ny == FFrob2(h.Y)
              IN <<num, FTrace(kvv), ly, ny>>
\* a / b in fixed point by long division (b > 0): no 32-bit overflow for quotients below 2^16; the divisor is shortened
\* to 16 bits for the fractional digits (relative error 2^-15)
QShr(b) == IF b < 65536 THEN 1 ELSE IF b < 4194304 THEN 64 ELSE IF b < 268435456 THEN 4096 ELSE 32768
QDivP(a, b) == LET q == a \div b  r == a % b  h == QShr(b) IN q * S + ((r \div h) * S) \div (b \div h)
QDiv(a, b) == FSgn(a) * QDivP(FAbs(a), b)
SmallScore(h, s) == FAbs(h.score) < 8 * S /\ s[2] < 64 * S /\ s[4] < 64 * S /\ FAbs(s[1]) < 64 * S /\ s[3] < 64 * S
ScoreClause(h) == LET s == ScoreOf(h) IN
    IF s[2] <= 64 \/ s[4] <= 64 THEN "ok"          \* vanishing kernel trace or target norm: the relative losses are 0/0
    ELSE IF ~h.finite THEN "score-not-finite"
    \* -score * trKVV * nY  ~  num * nY + lY * trKVV
    ELSE IF SmallScore(h, s) THEN
         (IF FAbs(FMul(FMul(-h.score, s[2]), s[4]) - (FMul(s[1], s[4]) + FMul(s[3], s[2])))
            > 16 * (Len(h.KVV) + N) * (Mag(KNN) + 2) * (s[4] \div S + 2) + (FMul(s[2], s[4]) \div 100) THEN "score-differs-from-documented-loss"
          ELSE "ok")
    \* large losses (an over-fitted regressor on held-out data, a large centred-and-scaled kernel trace): the same inequality
    \* divided through by trKVV * nY, evaluated by long division
    ELSE IF FAbs(s[1]) \div s[2] > 30000 \/ s[3] \div s[4] > 30000 THEN "ok"          \* reference loss beyond the fixed-point range: not decided
    ELSE IF FAbs(h.score) > 61000 * S THEN "score-differs-from-documented-loss"
    ELSE LET e1 == QDiv(16 * (Len(h.KVV) + N) * (Mag(KNN) + 2), s[2])
             e2 == e1 + QDiv(2 * e1, s[4])
             rhs == QDiv(s[1], s[2]) + QDiv(s[3], s[4])
         IN IF FAbs(-h.score - rhs) > e2 + S \div 100 + FAbs(rhs) \div 4000 + 8 THEN "score-differs-from-documented-loss" ELSE "ok"
HeldClause == IF \E q \in 1..Len(C.held) : C.held[q].raised THEN "held-out-set-rejected"
              ELSE IF ~GOK THEN "ok"
              ELSE LET bad == {q \in 1..Len(C.held) : ScoreClause(C.held[q]) # "ok"} IN IF bad = {} THEN "ok" ELSE ScoreClause(C.held[SetMin(bad)])
\* routes: each route record holds TN (train) and preds on the train set and on one held-out set
ColEqSign(A, B, j, tol) == (\A i \in 1..Len(A) : FAbs(A[i][j] - B[i][j]) <= tol) \/ (\A i \in 1..Len(A) : FAbs(A[i][j] + B[i][j]) <= tol)
EqSigns(A, B, tol) == Len(A) = Len(B) /\ \A j \in 1..k : ColEqSign(A, B, j, tol)
Distinct == \A j \in 1..k - 1 : Lam[j] > Lam[j + 1] + Lam[1] \div 50 + 200
RouteClause == IF \E q \in 1..Len(C.routes) : LET r == C.routes[q] IN
                     Distinct /\ (r.lamlast = 0 \/ Lam[k] > r.lamlast + Lam[1] \div 50 + 200) /\ ~EqSigns(r.TN, T, 4 * PB(N, KNN, T) + 64)
               THEN "projections-depend-on-the-route"
               ELSE IF \E q \in 1..Len(C.routes) : LET r == C.routes[q] IN
                     Distinct /\ r.TV # <<>> /\ ~EqSigns(r.TV, C.held[2].TV, 4 * PB(N, KNN, T) + 64) THEN "held-out-projections-depend-on-the-route"
               ELSE IF \E q \in 1..Len(C.routes) : LET r == C.routes[q] IN
                     r.yp # <<>> /\ ~Within(r.yp, C.ypN, 4 * PB(N, KNN, C.ypN) + 64 + FMaxAbs(C.ypN) \div 200) THEN "predictions-depend-on-the-route"
               ELSE "ok"
First(s) == LET bad == {i \in 1..Len(s) : s[i] # "ok"} IN IF bad = {} THEN "ok" ELSE s[SetMin(bad)]
Verdict == IF C.raised THEN <<"rejected", "valid-fit-raised">>
           ELSE IF FMaxAbs(C.KNN) > 250 * S THEN <<"inconclusive", "magnitude">>            \* input kernel out of the fixed-point range
           \* squared norms of the latent coordinates are eigenvalues of the modified kernel: bounded by the (bounded) inputs
           ELSE IF FMaxAbs(T) > 250 * S THEN <<"rejected", "latent-coordinates-out-of-range-or-not-finite">>
           ELSE IF ~ScaleOK THEN <<"inconclusive", "scale-witness">>
           ELSE LET c == First(<<EigClause, HeldClause, RouteClause>>) IN IF c = "ok" THEN <<"ok">> ELSE <<"rejected", c>>
Emit == PrintT(ToJson([k |-> "V", id |-> C.id, v |-> Verdict, ctx |-> [kernel |-> C.kernel, center |-> C.center, ginv |-> GOK, nheld |-> Len(C.held)]]))
=============================================================================
