--------------------------- MODULE TraceLifecycle ---------------------------
(* C09 trace validation.  One trace = one scenario on one catalogue entry (class or  *)
(* function): a sequence of public calls, each recorded with                         *)
(*   args      : for every caller-owned array argument its digest before and after   *)
(*   pbefore / pafter : digest of get_params() around the call (fit only)            *)
(*   self      : whether fit returned the estimator itself                           *)
(*   raised    : exception text ("" = none)                                          *)
(*   key       : identifies what a FRESH estimator would have been fitted on /       *)
(*               called with (class, parameters, data, with-y, call)                 *)
(*   fresh     : the call was made on a never-used object (defines the register)     *)
(*   out       : summary vector of the learned state / return value                  *)
(* The specification keeps a register per key: the first fresh call writes it, every *)
(* other call with the same key (a refit after other data, a repetition, the second  *)
(* half of fit_transform = fit;transform) must reproduce it.                         *)
EXTENDS Integers, Sequences, FiniteSets, TLC, Json, IOUtils
Traces == JsonDeserialize(IOEnv.TRACE_FILE)
VARIABLES tid, l, reg, verdict
vars == <<tid, l, reg, verdict>>
Tr == Traces[tid]
Ev == Tr.events
Init == tid \in 1..Len(Traces) /\ l = 1 /\ reg = <<>> /\ verdict = <<"running">>
Abs(x) == IF x < 0 THEN -x ELSE x
\* summaries: sequence of <<name, kind, shape, vals>>; "num" values agree within 2 units of 1e-6, everything else exactly
SameAttr(a, b) == /\ a[1] = b[1] /\ a[2] = b[2] /\ a[3] = b[3] /\ Len(a[4]) = Len(b[4])
                  /\ IF a[2] = "num" THEN \A i \in 1..Len(a[4]) : Abs(a[4][i] - b[4][i]) <= 3 ELSE a[4] = b[4]
SameOut(x, y) == Len(x) = Len(y) /\ \A i \in 1..Len(x) : SameAttr(x[i], y[i])
Lookup(k) == LET I == {i \in 1..Len(reg) : reg[i][1] = k} IN IF I = {} THEN <<>> ELSE reg[CHOOSE i \in I : TRUE][2]
Clause(e) ==
    IF e.raised # "" /\ ~e.expect_raise THEN "valid-call-raised"
    ELSE IF e.raised = "" /\ e.expect_raise THEN "invalid-call-accepted"
    ELSE IF \E a \in 1..Len(e.args) : e.args[a].before # e.args[a].after THEN "caller-array-modified"
    ELSE IF e.pbefore # e.pafter THEN "hyper-parameter-changed"
    ELSE IF e.op = "fit" /\ e.raised = "" /\ ~e.self THEN "fit-does-not-return-self"
    ELSE IF e.raised # "" \/ e.key = "" THEN "ok"
    ELSE LET r == Lookup(e.key) IN
         IF r = <<>> THEN "ok"
         ELSE IF ~SameOut(r, e.out) THEN (IF e.relation = "refit" THEN "refit-state-differs-from-fresh-estimator"
                                         ELSE IF e.relation = "repeat" THEN "repeated-call-gives-different-result"
                                         ELSE IF e.relation = "fit_transform" THEN "fit_transform-differs-from-fit-then-transform"
                                         ELSE "result-differs-from-register")
         ELSE "ok"
Consume == /\ verdict = <<"running">> /\ l <= Len(Ev)
           /\ LET e == Ev[l]  c == Clause(e) IN
              /\ verdict' = IF c = "ok" THEN verdict ELSE <<"rejected", c, l>>
              /\ reg' = IF c = "ok" /\ e.raised = "" /\ e.key # "" /\ e.fresh /\ Lookup(e.key) = <<>> THEN Append(reg, <<e.key, e.out>>) ELSE reg
           /\ l' = l + 1 /\ UNCHANGED tid
Accept == verdict = <<"running">> /\ l = Len(Ev) + 1 /\ verdict' = <<"ok">> /\ UNCHANGED <<tid, l, reg>>
Next == Consume \/ Accept
Spec == Init /\ [][Next]_vars
Done == verdict # <<"running">>
FailEv == IF verdict[1] = "rejected" THEN Ev[verdict[3]] ELSE [op |-> "", argname |-> ""]
Emit == Done => PrintT(ToJson([k |-> "V", id |-> Tr.id, v |-> verdict,
                               ctx |-> [entry |-> Tr.entry, op |-> FailEv.op, layout |-> Tr.layout,
                                        arg |-> (IF verdict[1] = "rejected" /\ verdict[2] = "caller-array-modified"
                                                 THEN LET e == Ev[verdict[3]] IN e.args[CHOOSE a \in 1..Len(e.args) : e.args[a].before # e.args[a].after].name ELSE ""),
                                        scenario |-> Tr.scenario]]))
=============================================================================
