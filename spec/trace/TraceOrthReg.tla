---------------------------- MODULE TraceOrthReg ----------------------------
(* C18: OrthogonalRegression.  X (n x f), Y (n x t) integer matrices, Om = the      *)
(* fitted weight matrix coef_.T in fixed point.  The specification checks          *)
(*  padded mode   : Om^T Om = I = Om Om^T (size p = max(f,t)), recovery of a       *)
(*                  rational orthogonal map, and Procrustes optimality against     *)
(*                  competitors ENUMERATED BY TLC: every signed permutation matrix *)
(*                  of size p and Om*G for Pythagorean Givens rotations G in every  *)
(*                  coordinate plane (small and large angles);                      *)
(*  projector mode: Om Om^T Om = Om (partial isometry), range inside the range of   *)
(*                  the linear fit (verified thin-SVD witness U, Vt of the logged   *)
(*                  coefficients), optimality against U R' Vt;                      *)
(*  both          : |predict(x)|^2 <= |x|^2 + budget on the recorded predictions.   *)
EXTENDS Cert, IntMat, TLC, Json, IOUtils
Cases == JsonDeserialize(IOEnv.TRACE_FILE)
VARIABLES tid
C == Cases[tid]
Init == tid \in 1..Len(Cases)
Next == UNCHANGED tid
Spec == Init /\ [][Next]_tid
n == Len(C.X)
f == Len(C.X[1])
t == Len(C.Y[1])
p == IF f > t THEN f ELSE t
PadRow(r, k) == [j \in 1..k |-> IF j <= Len(r) THEN r[j] * S ELSE 0]
Xp == [i \in 1..n |-> PadRow(C.X[i], IF C.padded THEN p ELSE f)]
Yp == [i \in 1..n |-> PadRow(C.Y[i], IF C.padded THEN p ELSE t)]
Om == C.Om
Z == FMatMul(Xp, Om)                                   \* fitted values X Om
Res2(Zm) == FFrob2(FSub(Yp, Zm))
Base == Res2(Z)
OBud == Base \div 400 + 64 * n * p + 64
OrthTol == 4 * p * ((2 * FMaxAbs(Om)) \div S + 2)
OrthClause == IF ~C.padded THEN "ok"
              ELSE IF Len(Om) # p \/ FNCols(Om) # p THEN "weight-matrix-not-square-padded-size"
              ELSE IF ~Within(FMatMul(FTr(Om), Om), FEye(p), OrthTol) \/ ~Within(FMatMul(Om, FTr(Om)), FEye(p), OrthTol) THEN "weight-matrix-not-orthogonal"
              ELSE "ok"
\* signed permutation competitors (padded mode): (X Q)[i][j] = sg[j] * X[i][pi[j]]
SignedPermBetter == \E pi \in Permutations(1..p), sg \in [1..p -> {-1, 1}] :
                       Res2([i \in 1..n |-> [j \in 1..p |-> sg[j] * Xp[i][pi[j]]]]) + OBud < Base
\* Givens competitors: Om * G, G rotating the plane (a,b) by the rational angle (c, s)/h
Angles == { <<3, 4, 5>>, <<4, 3, 5>>, <<5, 12, 13>>, <<12, 5, 13>>, <<399, 40, 401>>, <<399, -40, 401>>, <<-3, 4, 5>>, <<3, -4, 5>> }
RotCols(Zm, a, b, g) == [i \in 1..Len(Zm) |-> [j \in 1..Len(Zm[1]) |->
                            IF j = a THEN (g[1] * Zm[i][a] - g[2] * Zm[i][b]) \div g[3]
                            ELSE IF j = b THEN (g[2] * Zm[i][a] + g[1] * Zm[i][b]) \div g[3]
                            ELSE Zm[i][j]]]
GivensBetter == LET k == FNCols(Z) IN \E a \in 1..k, b \in 1..k, g \in Angles : a < b /\ Res2(RotCols(Z, a, b, g)) + OBud < Base
\* competitor witness C.Rstar: ANY orthogonal matrix is an admissible competitor, so a matrix supplied by the harness (the
\* Procrustes solution computed independently) only has to be verified orthogonal before its residual is compared
\* both residuals go through the same (witness) bases, so only fixed-point rounding separates them: an absolute budget and
\* 0.05 % of the residual instead of the 0.25 % - 1 % granted to the enumerated competitors
WBud == 2 * (64 * n * p + 64) + Base \div 2000
Rstar == C.Rstar
RstarOK == Rstar # <<>> /\ Len(Rstar) = FNCols(Rstar) /\ IsOrthonormalCols(Rstar, 4 * Len(Rstar) + 8) /\ IsOrthonormalCols(FTr(Rstar), 4 * Len(Rstar) + 8)
OptClause == IF C.padded /\ p <= 4 /\ SignedPermBetter THEN "a-signed-permutation-has-a-smaller-residual"
             ELSE IF C.padded /\ GivensBetter THEN "a-rotation-of-the-fitted-map-has-a-smaller-residual"
             ELSE IF C.padded /\ RstarOK /\ Len(Rstar) = p /\ Res2(FMatMul(Xp, Rstar)) + WBud < Base THEN "the-verified-orthogonal-competitor-has-a-smaller-residual"
             ELSE "ok"
\* recovery: Y = X Q for the rational orthogonal Q = C.Q / C.Qden and full column rank X
RecoverClause == IF C.Q = <<>> THEN "ok"
                 ELSE IF Base > 64 * n * p THEN "exact-orthogonal-relation-not-recovered-residual"
                 ELSE IF C.padded /\ \E i, j \in 1..p : IAbs(Om[i][j] * C.Qden - C.Q[i][j] * S) > 24 * C.Qden THEN "exact-orthogonal-relation-not-recovered-map"
                 ELSE "ok"
\* projector mode
U == C.U
Vt == C.Vt
r == Len(Vt)
SvdOK == /\ IsOrthonormalCols(U, 4 * f + 8) /\ IsOrthonormalCols(FTr(Vt), 4 * t + 8)
         /\ Within(FMatMul([i \in 1..f |-> [j \in 1..r |-> FMul(U[i][j], C.sv[j])]], Vt), C.lincoef, 8 * r * ((FMaxAbs(C.lincoef) \div S) + 2) + 16)
PITol == 8 * (f + t) * ((2 * FMaxAbs(Om)) \div S + 2)
ProjClause == IF C.padded \/ ~C.fullrank THEN "ok"      \* the range of a rank-deficient linear fit has no unique basis
              ELSE IF ~Within(FMatMul(FMatMul(Om, FTr(Om)), Om), Om, PITol) THEN "weight-matrix-not-a-partial-isometry"
              ELSE IF ~Within(FMatMul(U, FMatMul(FTr(U), Om)), Om, PITol) THEN "range-not-inside-the-linear-fit-range"
              ELSE IF ~Within(FMatMul(FMatMul(Om, FTr(Vt)), Vt), Om, PITol) THEN "co-range-not-inside-the-linear-fit-co-range"
              ELSE "ok"
\* the map is an isometry on the range of the linear fit ALSO when that fit has deficient rank: with U_r the left singular
\* vectors of the coefficients whose singular value is not negligible,  U_r^T Om Om^T U_r = I
RangeCols == {j \in 1..Len(C.sv) : C.sv[j] * 50 > C.sv[1] /\ C.sv[j] > 164}
Ur == [i \in 1..f |-> [j \in 1..Cardinality(RangeCols) |-> U[i][SortSet(RangeCols)[j]]]]
RangeIsoClause == IF C.padded \/ RangeCols = {} THEN "ok"
                  ELSE LET G == FMatMul(FMatMul(FTr(Ur), Om), FMatMul(FTr(Om), Ur)) IN
                       IF ~Within(G, FEye(Cardinality(RangeCols)), PITol + 64) THEN "map-is-not-an-isometry-on-the-range-of-the-linear-fit" ELSE "ok"
\* reduced competitors U R' Vt with R' a signed permutation of size r (residual measured in the reduced target space)
XU == FMatMul(Xp, U)
YV == FMatMul(Yp, FTr(Vt))
RedBase == FFrob2(FSub(YV, FMatMul(Z, FTr(Vt))))
RedBetter == \E pi \in Permutations(1..r), sg \in [1..r -> {-1, 1}] :
                FFrob2(FSub(YV, [i \in 1..n |-> [j \in 1..r |-> sg[j] * XU[i][pi[j]]]])) + OBud + RedBase \div 100 < RedBase
\* ... and U (R G) Vt for Givens rotations G of the fitted reduced map (small and large angles in every plane)
Zr == FMatMul(Z, FTr(Vt))
RedGivensBetter == \E a \in 1..r, b \in 1..r, g \in Angles : a < b /\ FFrob2(FSub(YV, RotCols(Zr, a, b, g))) + OBud + RedBase \div 100 < RedBase
ProjOptClause == IF C.padded \/ r > 4 \/ ~C.fullrank THEN "ok"
                 ELSE IF RedBetter THEN "a-rotation-between-the-reduced-spaces-has-a-smaller-residual"
                 ELSE IF RedGivensBetter THEN "a-rotation-of-the-fitted-reduced-map-has-a-smaller-residual"
                 ELSE IF RstarOK /\ Len(Rstar) = r /\ FFrob2(FSub(YV, FMatMul(XU, Rstar))) + WBud < RedBase
                      THEN "the-verified-rotation-between-the-reduced-spaces-has-a-smaller-residual"
                 ELSE "ok"
NormClause == IF \E i \in 1..Len(C.preds) : FSqNorm(C.preds[i]) > FSqNorm(PadRow(C.newX[i], f)) + 16 * (f + t) * ((FVMaxAbs(C.preds[i]) \div S) + 2)
              THEN "prediction-longer-than-input" ELSE "ok"
First(s) == LET bad == {i \in 1..Len(s) : s[i] # "ok"} IN IF bad = {} THEN "ok" ELSE s[SetMin(bad)]
Verdict == IF C.raised THEN <<"rejected", "valid-input-raised">>
           ELSE IF FMaxAbs(Xp) > 30 * S \/ FMaxAbs(Yp) > 30 * S THEN <<"inconclusive", "input-magnitude">>
           ELSE IF FMaxAbs(Om) > 8 * S THEN <<"rejected", "weight-matrix-entries-exceed-one">>
           ELSE IF ~C.padded /\ ~SvdOK THEN <<"badwitness", "svd">>
           ELSE IF Rstar # <<>> /\ ~RstarOK THEN <<"badwitness", "competitor-not-orthogonal">>
           ELSE LET c == First(<<OrthClause, ProjClause, RangeIsoClause, NormClause, RecoverClause, OptClause, ProjOptClause>>) IN
                IF c = "ok" THEN <<"ok">> ELSE <<"rejected", c>>
Emit == PrintT(ToJson([k |-> "V", id |-> C.id, v |-> Verdict, ctx |-> [padded |-> C.padded, f |-> f, t |-> t, kind |-> C.kind]]))
=============================================================================
