----------------------------- MODULE TraceRidgeCV -----------------------------
(* C10: Ridge2FoldCV = explicit two-fold cross-validated regularised least squares. *)
(* X, Y integer / 4; folds are environment input (index lists).  For every alpha     *)
(* and fold the harness supplies a WITNESS for the fold model W (features x targets) *)
(* which the specification first verifies through the defining equations             *)
(*   Tikhonov :  (X_f^T X_f + alpha I) W = X_f^T y_f                                 *)
(*   cut-off  :  in a verified eigenbasis (V, lam) of X_f^T X_f:  lam_j (v_j^T W) =  *)
(*               v_j^T X_f^T y_f  for lam_j > alpha^2,  v_j^T W = 0 otherwise        *)
(* then it predicts the OTHER fold itself, scores the prediction as sklearn's        *)
(* multi-output scorers do (metric per output column, uniform average) and compares  *)
(* with cv_values_; alpha_ must be a best grid value, coef_ the regularised solution *)
(* on the full data with the null directions excluded, predict = X coef_^T.          *)
EXTENDS Cert, IntMat, TLC, Json, IOUtils
Cases == JsonDeserialize(IOEnv.TRACE_FILE)
VARIABLES tid
C == Cases[tid]
Init == tid \in 1..Len(Cases)
Next == UNCHANGED tid
Spec == Init /\ [][Next]_tid
Q4(M) == [i \in 1..Len(M) |-> [j \in 1..Len(M[1]) |-> M[i][j] * (S \div 4)]]
X == Q4(C.X)
Y == Q4(C.Y)
m == Len(X[1])
p == Len(Y[1])
Rows(M, idx) == [i \in 1..Len(idx) |-> M[idx[i]]]
XF(f) == IF f = 1 THEN Rows(X, C.f1) ELSE IF f = 2 THEN Rows(X, C.f2) ELSE X
YF(f) == IF f = 1 THEN Rows(Y, C.f1) ELSE IF f = 2 THEN Rows(Y, C.f2) ELSE Y
Mag(M) == FMaxAbs(M) \div S + 1
PB(s, A, B) == 4 * s * (Mag(A) + Mag(B) + 2)
Gf(f) == FMatMul(FTr(XF(f)), XF(f))
XtY(f) == FMatMul(FTr(XF(f)), YF(f))
Eig(f) == C.eig[f]            \* [V |-> m x m, lam |-> m] complete eigenbasis witness of Gf(f)
EigOK(f) == LET G == Gf(f) IN IsEigen(G, Eig(f).V, Eig(f).lam, 6 * m * (Mag(G) + 3) + FVMaxAbs(Eig(f).lam) \div 400)
AddDiag(G, a) == [i \in 1..m |-> [j \in 1..m |-> G[i][j] + (IF i = j THEN a ELSE 0)]]
\* ---- witness verification for one model W fitted on fold f with effective alpha a ----
TikOK(f, a, W) == LET G == Gf(f) IN Within(FMatMul(AddDiag(G, a), W), XtY(f), 6 * m * (Mag(G) + (a \div S) + 3) * (Mag(W) + 1) + 64)
\* cut-off: alpha compares with singular values, i.e. alpha^2 with eigenvalues lam
Asq(a) == FMul(a, a)
Near(l, a) == FAbs(l - Asq(a)) <= 32 + Asq(a) \div 100
Kept(f, a, j) == Eig(f).lam[j] > Asq(a) /\ Eig(f).lam[j] > 24          \* above the cut-off and above the numerical rank
Ambiguous(f, a) == \E j \in 1..m : (Eig(f).lam[j] > 24 /\ Near(Eig(f).lam[j], a)) \/ (Eig(f).lam[j] > 4 /\ Eig(f).lam[j] <= 24)
CutOK(f, a, W) == LET V == Eig(f).V  R == XtY(f) IN
    \A j \in 1..m : LET v == FCol(V, j)  vw == [c \in 1..p |-> FDot(v, FCol(W, c))]  vr == [c \in 1..p |-> FDot(v, FCol(R, c))] IN
        IF Kept(f, a, j) THEN \A c \in 1..p : FAbs(FMul(Eig(f).lam[j], vw[c]) - vr[c]) <= 8 * m * (Mag(R) + Mag(W) + 2) * (Eig(f).lam[j] \div S + 2) + 32
        ELSE \A c \in 1..p : FAbs(vw[c]) <= 8 * m * (Mag(W) + 2)
ModelOK(f, a, W) == IF C.method = "tikhonov" THEN TikOK(f, a, W) ELSE CutOK(f, a, W)
\* ---- scoring as sklearn does for multi-output targets ----
ColSqErr(Yt, Yp, c) == FSumR([i \in 1..Len(Yt) |-> FMul(Yt[i][c] - Yp[i][c], Yt[i][c] - Yp[i][c])], Len(Yt))
ColMean(Yt, c) == FSumR([i \in 1..Len(Yt) |-> Yt[i][c]], Len(Yt)) \div Len(Yt)
ColTot(Yt, c) == LET mu == ColMean(Yt, c) IN FSumR([i \in 1..Len(Yt) |-> FMul(Yt[i][c] - mu, Yt[i][c] - mu)], Len(Yt))
Mse(Yt, Yp, c) == ColSqErr(Yt, Yp, c) \div Len(Yt)
\* aux witnesses: for neg RMSE the root per output column, for r2 the quotient res/tot per output column
ScoreOf(Yt, Yp, aux) ==
    CASE C.scorer = "mse"  -> <<-(FSumR([c \in 1..p |-> Mse(Yt, Yp, c)], p) \div p), TRUE>>
      [] C.scorer = "rmse" -> <<-(FSumR([c \in 1..p |-> aux[c]], p) \div p),
                               \A c \in 1..p : aux[c] >= 0 /\ FAbs(FMul(aux[c], aux[c]) - Mse(Yt, Yp, c)) <= 8 + Mse(Yt, Yp, c) \div 200 + aux[c] \div 64>>
      [] C.scorer = "r2"   -> <<FSumR([c \in 1..p |-> S - aux[c]], p) \div p,
                               \A c \in 1..p : ColTot(Yt, c) > 256 /\ FAbs(FMul(aux[c], ColTot(Yt, c)) - ColSqErr(Yt, Yp, c)) <= 16 + ColSqErr(Yt, Yp, c) \div 200 + ColTot(Yt, c) \div 2000>>
NA == Len(C.aeff)
Other(f) == 3 - f
FoldScore(f, i) == ScoreOf(YF(Other(f)), FMatMul(XF(Other(f)), C.W[f][i]), C.aux[f][i])     \* model of fold f scored on the other fold
CvSpec(i) == (FoldScore(1, i)[1] + FoldScore(2, i)[1]) \div 2
CvTol(i) == 96 + FAbs(C.cv[i]) \div 100
\* ---- relative alphas: effective alpha = rel * max(top singular values of the two folds) ----
SigOK(f) == C.sig[f] >= 0 /\ FAbs(FMul(C.sig[f], C.sig[f]) - Eig(f).lam[1]) <= 16 + Eig(f).lam[1] \div 500
RelClause == IF C.rel = <<>> THEN "ok"
             ELSE IF ~(SigOK(1) /\ SigOK(2)) THEN "badwitness"
             ELSE IF \E i \in 1..NA : FAbs(C.aeff[i] * C.rel[i][2] - C.rel[i][1] * FMax2(C.sig[1], C.sig[2])) > 8 * C.rel[i][2] + C.rel[i][1] THEN "badwitness"
             ELSE "ok"
\* ---- clauses ----
WitnessClause == IF ~(EigOK(1) /\ EigOK(2) /\ EigOK(3)) THEN "badwitness-eig"
                 ELSE IF RelClause # "ok" THEN "badwitness-rel"
                 ELSE IF \E i \in 1..NA, f \in 1..2 : C.method = "cutoff" /\ Ambiguous(f, C.aeff[i]) THEN "inconclusive"
                 ELSE IF \E i \in 1..NA, f \in 1..2 : ~ModelOK(f, C.aeff[i], C.W[f][i]) THEN "badwitness-model"
                 ELSE IF \E i \in 1..NA, f \in 1..2 : ~FoldScore(f, i)[2] THEN "badwitness-score"
                 ELSE "ok"
CvClause == IF \E i \in 1..NA : FAbs(C.cv[i] - CvSpec(i)) > CvTol(i) THEN "cv-value-differs-from-explicit-two-fold-cross-validation" ELSE "ok"
BestClause == IF \E j \in 1..NA : C.cv[j] > C.cv[C.best_idx] + 4 THEN "chosen-alpha-is-not-the-best-grid-value"
              ELSE IF FAbs(C.best_score - C.cv[C.best_idx]) > 4 THEN "best_score-differs-from-best-cv-value" ELSE "ok"
CoefT == FTr(C.coef)                         \* features x targets
ABest == C.aeff[C.best_idx]
CoefClause == IF C.method = "tikhonov" /\ ABest >= 16 /\ ~TikOK(3, ABest, CoefT) THEN "coefficients-are-not-the-regularised-solution-on-the-full-data"
              ELSE IF C.method = "cutoff" /\ ~Ambiguous(3, ABest) /\ ~CutOK(3, ABest, CoefT) THEN "coefficients-are-not-the-regularised-solution-on-the-full-data"
              \* tiny alphas: normal equations on the range, nothing in the numerical null space
              ELSE IF C.method = "tikhonov" /\ ABest < 16 /\ ~Ambiguous(3, 0) /\ ~CutOK(3, 0, CoefT) THEN "coefficients-unbounded-or-not-least-squares-for-tiny-alpha"
              ELSE IF FMaxAbs(C.coef) > 2000 * S THEN "coefficients-unbounded"
              ELSE "ok"
PredClause == IF C.Xn # <<>> /\ ~Within(FMatMul(Q4(C.Xn), CoefT), C.predn, PB(m, Q4(C.Xn), CoefT) + 16) THEN "predict-differs-from-X-times-coefficients" ELSE "ok"
First(s) == LET bad == {i \in 1..Len(s) : s[i] # "ok"} IN IF bad = {} THEN "ok" ELSE s[SetMin(bad)]
Verdict == IF C.raised THEN <<"rejected", "valid-fit-raised">>
           ELSE IF Len(C.cv) # NA THEN <<"rejected", "number-of-cv-values-differs-from-the-alpha-grid">>
           ELSE IF C.best_idx \notin 1..NA THEN <<"rejected", "chosen-alpha-is-not-a-grid-value">>
           ELSE IF FMaxAbs(C.coef) > 100000 * S \/ \E f \in 1..2, i \in 1..NA : FMaxAbs(C.W[f][i]) > 400 * S THEN
                (IF FMaxAbs(C.coef) > 100000 * S THEN <<"rejected", "coefficients-unbounded">> ELSE <<"inconclusive", "magnitude">>)
           ELSE LET w == WitnessClause IN
                IF w = "inconclusive" THEN <<"inconclusive", "singular-value-at-the-cut-off">>
                ELSE IF w # "ok" THEN <<"badwitness", w>>
                ELSE LET c == First(<<CvClause, BestClause, CoefClause, PredClause>>) IN IF c = "ok" THEN <<"ok">> ELSE <<"rejected", c>>
Emit == PrintT(ToJson([k |-> "V", id |-> C.id, v |-> Verdict, ctx |-> [method |-> C.method, scorer |-> C.scorer, relative |-> C.rel # <<>>]]))
===============================================================================
