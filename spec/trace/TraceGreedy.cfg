SPECIFICATION Spec
INVARIANT RefInv
INVARIANT Emit
CHECK_DEADLOCK FALSE
