-------------------------- MODULE TraceLocalization --------------------------
(* Growth module (code -> spec): every run of SparseKDE's localisation search, recorded *)
(* from the real fit (the module function _local_population and the tuning method are   *)
(* wrapped by the harness), must be a behaviour of the step machine of Localization.tla *)
(* for the recorded population values:                                                  *)
(*   s[1] = tune; grow by tune while f < lim; then for j = 1, 2, ... step down by        *)
(*   tune/2^j if f > lim, else up; stop exactly at the first step after which            *)
(*   |f - lim| < delta;  lim = fpoints, or own weight + delta if fpoints <= own weight;   *)
(*   delta = 1 / nsamples; sigma^2 positive throughout.                                   *)
(* s is given in units of tune / 2^20, populations in units of 2^-29.                     *)
EXTENDS Integers, Sequences, FiniteSets, FiniteSetsExt, TLC, Json, IOUtils
Cases == JsonDeserialize(IOEnv.TRACE_FILE)
VARIABLES tid
C == Cases[tid]
Init == tid \in 1..Len(Cases)
Next == UNCHANGED tid
Spec == Init /\ [][Next]_tid
U == 1048576                  \* 2^20 = tune
P == 536870912                \* 2^29 = population 1
Abs(x) == IF x < 0 THEN -x ELSE x
Delta == P \div C.nsamples
Lim == IF C.fpoints <= C.w0 THEN C.w0 + Delta ELSE C.fpoints
n == Len(C.s)
\* comparisons that rounding of the recording could flip
Fuzzy(i) == Abs(C.f[i] - Lim) <= 2 \/ Abs(Abs(C.f[i] - Lim) - Delta) <= 2
Below(i) == C.f[i] < Lim
Close(i) == Abs(C.f[i] - Lim) < Delta
GrowIdx == {i \in 1..n : \A k \in 1..i : Below(k)}      \* prefix of queries answered below the target
g == Cardinality(GrowIdx) + 1                            \* index of the first query with f >= lim
Pow2(k) == 2 ^ k
StepOf(j) == U \div Pow2(j)
Clause ==
  IF n = 0 \/ Len(C.f) # n THEN "malformed-record"
  ELSE IF C.s[1] # U THEN "initial-localisation-is-not-tune"
  ELSE IF \E i \in 1..n : C.s[i] <= 0 THEN "non-positive-localisation"
  ELSE IF \E i \in 1..n - 1 : i < g /\ C.s[i + 1] # C.s[i] + U THEN "grow-step-is-not-one-tune"
  ELSE IF g > n THEN "search-ended-below-target"
  ELSE IF n = g THEN "no-bisection-step-taken"
  ELSE IF \E j \in 1..(n - g) : C.s[g + j] # (IF C.f[g + j - 1] > Lim THEN C.s[g + j - 1] - StepOf(j) ELSE C.s[g + j - 1] + StepOf(j))
       THEN "bisection-step-differs"
  ELSE IF \E j \in 1..(n - g - 1) : Close(g + j) THEN "continued-after-reaching-tolerance"
  ELSE IF ~Close(n) THEN "stopped-outside-tolerance"
  ELSE "ok"
Verdict == IF C.deep THEN <<"inconclusive", "more-than-20-halvings">>
           ELSE IF \E i \in 1..n : Fuzzy(i) THEN <<"inconclusive", "comparison-within-rounding">>
           ELSE IF Clause = "ok" THEN <<"ok">> ELSE <<"rejected", Clause>>
Emit == PrintT(ToJson([k |-> "V", id |-> C.id, v |-> Verdict, ctx |-> [queries |-> n, grow |-> g - 1, halvings |-> n - g]]))
==============================================================================
