------------------------------ MODULE TraceFPSFx ------------------------------
(* C02, feature-direction PCov-FPS: the distance is induced by the PCovR-modified    *)
(* covariance  Ct = a/8 X^T X + (1 - a/8) C^-1/2 X^T Y Y^T X C^-1/2  (C = X^T X).     *)
(* With the thin SVD X = U diag(sv) V^T (WITNESS, verified here) C^-1/2 X^T = V U^T,  *)
(* so B = V (U^T Y) and Ct = a/8 G + (1 - a/8) B B^T are evaluated by the             *)
(* specification in fixed point;  d(i, j) = Ct_ii - 2 Ct_ij + Ct_jj.  The recorded    *)
(* decisions are then checked like in TraceFPS, with a budget instead of exact        *)
(* equality: tables within Tol of the brute-force table, each choice within Tol of    *)
(* the maximum over the not-yet-selected items.                                       *)
EXTENDS Cert, IntMat, TLC, Json, IOUtils
Cases == JsonDeserialize(IOEnv.TRACE_FILE)
VARIABLES tid
C == Cases[tid]
Init == tid \in 1..Len(Cases)
Next == UNCHANGED tid
Spec == Init /\ [][Next]_tid
X == [i \in 1..Len(C.X) |-> [j \in 1..Len(C.X[1]) |-> C.X[i][j] * (S \div 4)]]
Y == [i \in 1..Len(C.Y) |-> [j \in 1..Len(C.Y[1]) |-> C.Y[i][j] * (S \div 4)]]
NR == Len(X)
NI == Len(X[1])
W == C.svd
rk == Len(W.sv)
Mag(M) == FMaxAbs(M) \div S + 1
\* a singular value that is tiny but above the code's own cut (1e-12 on eigenvalues) makes C^-1/2 huge: not decided here
NearSingular == rk = 0 \/ \E i \in 1..rk : W.sv[i] <= 512
SvdOK == /\ IsOrthonormalCols(W.U, 4 * NR + 8) /\ IsOrthonormalCols(W.V, 4 * NI + 8)
         /\ Within(FMatMul([i \in 1..NR |-> [j \in 1..rk |-> FMul(W.U[i][j], W.sv[j])]], FTr(W.V)), X, 8 * rk * (Mag(X) + 3) + 16)
Ct == LET G == FMatMul(FTr(X), X)  B == FMatMul(W.V, FMatMul(FTr(W.U), Y))  BB == FMatMul(B, FTr(B)) IN
      [i \in 1..NI |-> [j \in 1..NI |-> (G[i][j] * C.a + BB[i][j] * (8 - C.a)) \div 8]]
BIG == 1000000000
RECURSIVE MinOver(_, _, _, _)
MinOver(K, i, s, n) == IF n = 0 THEN BIG ELSE LET d == K[i][i] - 2 * K[i][s[n]] + K[s[n]][s[n]]  r == MinOver(K, i, s, n - 1) IN IF d < r THEN d ELSE r
Table(K, s) == [i \in 1..NI |-> MinOver(K, i, s, Len(s))]
Tol(K) == 16 * NR * (Mag(K) + 4) + FMaxAbs(K) \div 400
Steps == C.steps                  \* [c |-> choice, score |-> table before the decision]
Sel(t) == C.init \o [i \in 1..t - 1 |-> Steps[i].c]
StepClause(K, t) == LET s == Sel(t)  T == Table(K, s)  U == (1..NI) \ RangeOf(s)  tol == Tol(K) IN
    IF \E i \in 1..NI : FAbs(Steps[t].score[i] - T[i]) > tol THEN "score-table-differs-from-true-minimum"
    ELSE IF Steps[t].c \notin U THEN "reselected-item"
    ELSE IF \E j \in U : T[j] > T[Steps[t].c] + 2 * tol THEN "choice-not-a-farthest-candidate"
    ELSE "ok"
Final(K) == LET s == Sel(Len(Steps) + 1)  T == Table(K, s) IN
            IF C.table # <<>> /\ \E i \in 1..NI : FAbs(C.table[i] - T[i]) > Tol(K) THEN "get_distance-differs-from-true-minimum" ELSE "ok"
Verdict == IF C.raised THEN <<"rejected", "valid-fit-raised">>
           ELSE IF NearSingular THEN <<"inconclusive", "near-singular-input">>
           ELSE IF ~SvdOK THEN <<"badwitness", "svd">>
           ELSE LET K == Ct  bad == {t \in 1..Len(Steps) : StepClause(K, t) # "ok"} IN
                IF bad # {} THEN <<"rejected", StepClause(K, SetMin(bad)), SetMin(bad)>>
                ELSE IF Final(K) # "ok" THEN <<"rejected", Final(K)>> ELSE <<"ok">>
Emit == PrintT(ToJson([k |-> "V", id |-> C.id, v |-> Verdict, ctx |-> [a |-> C.a]]))
===============================================================================
