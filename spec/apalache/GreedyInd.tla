------------------------------ MODULE GreedyInd ------------------------------
(* Inductive-invariant version of the reference selector bookkeeping (C01) for      *)
(* Apalache: the selection is a sequence of pairwise distinct, in-range items no     *)
(* longer than the request, for ANY number of items N up to MaxN and any scorer      *)
(* (the choice c is an arbitrary not-yet-selected item, which over-approximates      *)
(* every argmax).  Checked as  IndInit => IndInv  (length 0) and                     *)
(* IndInv /\ Next => IndInv'  (length 1).  Optional extra, never a registered check. *)
EXTENDS Integers, Sequences, FiniteSets, Apalache
CONSTANT
    \* @type: Int;
    N
VARIABLES
    \* @type: Seq(Int);
    sel,
    \* @type: Int;
    req,
    \* @type: Str;
    pc
MaxN == 12
CInit == N \in 1..MaxN
\* @type: (Seq(Int)) => Set(Int);
Range(s) == {s[i] : i \in DOMAIN s}
\* @type: (Seq(Int)) => Bool;
Distinct(s) == \A i, j \in DOMAIN s : i # j => s[i] # s[j]
TypeOK == /\ pc \in {"idle", "fitting"} /\ req \in 0..N /\ Len(sel) <= N /\ \A i \in DOMAIN sel : sel[i] \in 1..N
IndInv == TypeOK /\ Distinct(sel) /\ Len(sel) <= req /\ (pc = "idle" => TRUE)
Init == sel = <<>> /\ req = 0 /\ pc = "idle"
\* arbitrary state satisfying the invariant (for the inductive step)
IndInit == /\ pc \in {"idle", "fitting"} /\ req \in 0..N
           /\ sel = Gen(MaxN) /\ Len(sel) <= req /\ \A i \in DOMAIN sel : sel[i] \in 1..N
           /\ Distinct(sel)
BeginCold(k) == pc = "idle" /\ k \in 1..N /\ sel' = <<>> /\ req' = k /\ pc' = "fitting"
BeginWarm(k) == pc = "idle" /\ k \in 1..N /\ k >= Len(sel) /\ k >= req /\ sel' = sel /\ req' = k /\ pc' = "fitting"
Select(c) == pc = "fitting" /\ Len(sel) < req /\ c \in 1..N /\ c \notin Range(sel) /\ sel' = Append(sel, c) /\ UNCHANGED <<req, pc>>
Finish == pc = "fitting" /\ pc' = "idle" /\ UNCHANGED <<sel, req>>
Next == (\E k \in 1..MaxN : BeginCold(k) \/ BeginWarm(k)) \/ (\E c \in 1..MaxN : Select(c)) \/ Finish
==============================================================================
