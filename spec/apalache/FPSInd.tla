------------------------------- MODULE FPSInd -------------------------------
(* Inductive-invariant version of the farthest-point bookkeeping (C02, C06) for       *)
(* Apalache.  For ANY number of items N <= MaxN and ANY symmetric dissimilarity d      *)
(* with zero diagonal and entries in 0..DMax (no geometry is assumed):                *)
(*   Exact      table[x] = min over the selected items s of d[x][s]                   *)
(*   Dominated  every table entry is at most the distance reported for the last       *)
(*              selection                                                              *)
(*   Monotone   the distances reported at selection never increase                    *)
(* are preserved by a step that selects an item of maximal table entry and lowers      *)
(* every entry to min(table[x], d[x][c]).  Checked as IndInit => IndInv (length 0)     *)
(* and IndInv /\ Next => IndInv' (length 1).  Optional extra, never a registered check.*)
EXTENDS Integers, Sequences, FiniteSets, Apalache
CONSTANTS
    \* @type: Int;
    N,
    \* @type: Int -> (Int -> Int);
    d
VARIABLES
    \* @type: Seq(Int);
    sel,
    \* @type: Int -> Int;
    table,
    \* @type: Seq(Int);
    hsel
MaxN == 6
DMax == 9
Items == 1..MaxN
CInit == /\ N \in 2..MaxN
         /\ d \in [Items -> [Items -> 0..DMax]]
         /\ \A i \in Items, j \in Items : d[i][j] = d[j][i] /\ (i = j => d[i][j] = 0)
\* @type: (Seq(Int)) => Set(Int);
Range(s) == {s[i] : i \in DOMAIN s}
\* @type: (Int, Int) => Int;
Min2(a, b) == IF a < b THEN a ELSE b
\* exactness without a Min operator: a lower bound attained by some selected item
Exact == \A x \in Items : x <= N => ((\A i \in DOMAIN sel : table[x] <= d[x][sel[i]]) /\ (\E i \in DOMAIN sel : table[x] = d[x][sel[i]]))
Dominated == Len(hsel) >= 1 => (\A x \in Items : (x <= N => table[x] <= hsel[Len(hsel)]))
Monotone == \A i \in DOMAIN hsel : \A j \in DOMAIN hsel : i < j => hsel[j] <= hsel[i]
TypeOK == /\ Len(sel) >= 1 /\ Len(sel) <= N /\ \A i \in DOMAIN sel : sel[i] >= 1 /\ sel[i] <= N
          /\ Len(hsel) = Len(sel) - 1
          /\ table \in [Items -> 0..DMax]
IndInv == TypeOK /\ Exact /\ Dominated /\ Monotone
Init == \E c0 \in Items : c0 <= N /\ sel = <<c0>> /\ hsel = <<>> /\ table = [x \in Items |-> d[x][c0]]
IndInit == /\ sel = Gen(MaxN) /\ hsel = Gen(MaxN) /\ table \in [Items -> 0..DMax]
           /\ \A i \in DOMAIN hsel : hsel[i] \in 0..DMax
           /\ IndInv
Select(c) == /\ Len(sel) < N /\ c >= 1 /\ c <= N
             /\ (\A x \in Items : (x <= N => table[x] <= table[c]))              \* a farthest candidate (selected items have entry 0)
             /\ table[c] > 0                                       \* not yet selected and not a duplicate of a selected item
             /\ sel' = Append(sel, c)
             /\ hsel' = Append(hsel, table[c])
             /\ table' = [x \in Items |-> Min2(table[x], d[x][c])]
Next == \E c \in Items : Select(c)
==============================================================================
