--------------------------- MODULE RidgeConfigEnum ---------------------------
(* Configuration matrix of Ridge2FoldCV (C10): regularisation method x alpha type  *)
(* x scorer x kind of fold assignment x n_jobs, enumerated by TLC and replayed.    *)
EXTENDS Integers, Sequences, TLC, Json
VARIABLES cfg
Init == cfg \in {"tikhonov", "cutoff"} \X {"absolute", "relative"} \X {"mse", "rmse", "r2"} \X {"none-shuffle", "none-noshuffle", "iterable", "kfold"} \X {1, 2}
Next == UNCHANGED cfg
Spec == Init /\ [][Next]_cfg
Emit == PrintT(ToJson([k |-> "E", method |-> cfg[1], atype |-> cfg[2], scorer |-> cfg[3], cv |-> cfg[4], njobs |-> cfg[5]]))
==============================================================================
