---------------------------- MODULE IntMat ----------------------------
(* Exact integer vectors / matrices (sequences of sequences), used by every      *)
(* lattice-domain specification.  All values must stay below 2^31: TLC raises an *)
(* error on overflow (never wraps), which the harness reports as a machinery     *)
(* failure.                                                                      *)
EXTENDS Integers, Sequences, FiniteSets

IAbs(x) == IF x < 0 THEN -x ELSE x
IMin2(a, b) == IF a < b THEN a ELSE b
IMax2(a, b) == IF a > b THEN a ELSE b
SetMax(S) == CHOOSE m \in S : \A x \in S : x <= m
SetMin(S) == CHOOSE m \in S : \A x \in S : m <= x
RangeOf(s) == {s[i] : i \in 1..Len(s)}

RECURSIVE ISumR(_, _)
ISumR(f, n) == IF n = 0 THEN 0 ELSE f[n] + ISumR(f, n - 1)
ISum(f) == ISumR(f, Len(f))
IDot(u, v) == ISumR([k \in 1..Len(u) |-> u[k] * v[k]], Len(u))
SqDist(a, b) == ISumR([k \in 1..Len(a) |-> (a[k] - b[k]) * (a[k] - b[k])], Len(a))
NRows(M) == Len(M)
NCols(M) == IF Len(M) = 0 THEN 0 ELSE Len(M[1])
ICol(M, j) == [i \in 1..Len(M) |-> M[i][j]]
ITr(M) == [j \in 1..NCols(M) |-> ICol(M, j)]
IMatMul(A, B) == [i \in 1..Len(A) |-> [j \in 1..NCols(B) |-> IDot(A[i], ICol(B, j))]]
IGram(M) == [i \in 1..Len(M) |-> [j \in 1..Len(M) |-> IDot(M[i], M[j])]]

(* argmax / argmin sets of a table restricted to a candidate set *)
ArgMaxSet(t, U) == LET m == SetMax({t[j] : j \in U}) IN {j \in U : t[j] = m}
ArgMinSet(t, U) == LET m == SetMin({t[j] : j \in U}) IN {j \in U : t[j] = m}

(* sorted sequence of a finite set of integers *)
RECURSIVE SortSet(_)
SortSet(S) == IF S = {} THEN <<>> ELSE LET m == SetMin(S) IN <<m>> \o SortSet(S \ {m})

(* determinants up to 4x4 (cofactor expansion) *)
Det2(M) == M[1][1] * M[2][2] - M[1][2] * M[2][1]
Det3(M) == M[1][1] * (M[2][2] * M[3][3] - M[2][3] * M[3][2])
         - M[1][2] * (M[2][1] * M[3][3] - M[2][3] * M[3][1])
         + M[1][3] * (M[2][1] * M[3][2] - M[2][2] * M[3][1])
Minor(M, r, c) == LET n == Len(M)
                      rows == [i \in 1..n - 1 |-> IF i < r THEN i ELSE i + 1]
                      cols == [j \in 1..n - 1 |-> IF j < c THEN j ELSE j + 1]
                  IN [i \in 1..n - 1 |-> [j \in 1..n - 1 |-> M[rows[i]][cols[j]]]]
RECURSIVE Det(_)
Det(M) == IF Len(M) = 1 THEN M[1][1]
          ELSE IF Len(M) = 2 THEN Det2(M)
          ELSE IF Len(M) = 3 THEN Det3(M)
          ELSE ISumR([j \in 1..Len(M) |-> (IF j % 2 = 1 THEN 1 ELSE -1) * M[1][j] * Det(Minor(M, 1, j))], Len(M))
=======================================================================
