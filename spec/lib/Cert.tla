------------------------------- MODULE Cert -------------------------------
(* Witness predicates (fixed point): objects the implementation does not expose  *)
(* (inverses, pseudo-inverses, square roots, eigenbases) are SUPPLIED by the      *)
(* harness and VERIFIED here through their defining equations before use.         *)
EXTENDS Fx
Within(A, B, tol) == SameShape(A, B) /\ FMaxAbsDiff(A, B) <= tol
IsSymmetric(A, tol) == Len(A) = FNCols(A) /\ FMaxAbsDiff(A, FTr(A)) <= tol
\* two-sided inverse
IsInverse(A, W, tol) == Within(FMatMul(A, W), FEye(Len(A)), tol) /\ Within(FMatMul(W, A), FEye(Len(A)), tol)
\* Moore-Penrose equations
IsPInv(A, P, tol) == LET AP == FMatMul(A, P)  PA == FMatMul(P, A) IN
                     /\ Within(FMatMul(AP, A), A, tol)
                     /\ Within(FMatMul(PA, P), P, tol)
                     /\ IsSymmetric(AP, tol) /\ IsSymmetric(PA, tol)
\* the same with tolerances derived from the magnitudes (a, p = max |entry| in real units, m = inner size):
\* the witness is rounded to 1/S, which A amplifies twice in A P A and A, P once each in P A P
IsPInvB(A, P) == LET m == Len(A)  a == FMaxAbs(A) \div S + 1  p == FMaxAbs(P) \div S + 1
                     AP == FMatMul(A, P)  PA == FMatMul(P, A) IN
                 /\ Within(FMatMul(AP, A), A, m * m * a * (a + 1) + 64)
                 /\ Within(FMatMul(PA, P), P, 2 * m * m * a * p + 64)
                 /\ IsSymmetric(AP, 2 * m * (a + p) + 16) /\ IsSymmetric(PA, 2 * m * (a + p) + 16)
\* columns of U (n x k) orthonormal
IsOrthonormalCols(U, tol) == Within(FMatMul(FTr(U), U), FEye(FNCols(U)), tol)
\* eigen-certificate: A U = U diag(lam), U orthonormal, lam sorted decreasing
IsEigen(A, U, lam, tol) == /\ Within(FMatMul(A, U), [i \in 1..Len(U) |-> [j \in 1..Len(lam) |-> FMul(U[i][j], lam[j])]], tol)
                           /\ IsOrthonormalCols(U, tol)
                           /\ \A i \in 1..Len(lam) - 1 : lam[i] + 2 >= lam[i + 1]
\* symmetric PSD square root:  R R = A, R symmetric
IsSqrt(A, R, tol) == IsSymmetric(R, 2) /\ Within(FMatMul(R, R), A, tol)
===========================================================================
