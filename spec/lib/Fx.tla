------------------------------ MODULE Fx ------------------------------
(* Fixed-point reals for law checking.  A real v is represented by the integer   *)
(* round(v * S), S = 2^14.  FMul is a split multiply that does not overflow 32   *)
(* bits as long as |a|,|b| < 2^30 and |a*b/S| < 2^31.  Error budgets are         *)
(* computed by the specification from operand magnitudes (see Budget operators). *)
EXTENDS Integers, Sequences, FiniteSets

S == 16384
B15 == 32768
FAbs(x) == IF x < 0 THEN -x ELSE x
FSgn(x) == IF x < 0 THEN -1 ELSE 1
FMax2(a, b) == IF a > b THEN a ELSE b
FMulAbs(a, b) == LET ah == a \div B15  al == a % B15  bh == b \div B15  bl == b % B15
                 IN ah * bh * 65536 + (ah * bl + al * bh) * 2 + ((al * bl) \div S)
FMul(a, b) == FSgn(a) * FSgn(b) * FMulAbs(FAbs(a), FAbs(b))
RECURSIVE FDotR(_, _, _)
FDotR(u, v, n) == IF n = 0 THEN 0 ELSE FMul(u[n], v[n]) + FDotR(u, v, n - 1)
FDot(u, v) == FDotR(u, v, Len(u))
RECURSIVE FSumR(_, _)
FSumR(f, n) == IF n = 0 THEN 0 ELSE f[n] + FSumR(f, n - 1)
FSum(f) == FSumR(f, Len(f))
FCol(M, j) == [i \in 1..Len(M) |-> M[i][j]]
FNCols(M) == IF Len(M) = 0 THEN 0 ELSE Len(M[1])
FTr(M) == [j \in 1..FNCols(M) |-> FCol(M, j)]
FMatMul(A, B) == LET Bt == FTr(B) IN [i \in 1..Len(A) |-> [j \in 1..Len(Bt) |-> FDot(A[i], Bt[j])]]
FMatVec(A, v) == [i \in 1..Len(A) |-> FDot(A[i], v)]
FAdd(A, B) == [i \in 1..Len(A) |-> [j \in 1..Len(A[1]) |-> A[i][j] + B[i][j]]]
FSub(A, B) == [i \in 1..Len(A) |-> [j \in 1..Len(A[1]) |-> A[i][j] - B[i][j]]]
FVSub(a, b) == [k \in 1..Len(a) |-> a[k] - b[k]]
FScaleQ(M, a, q) == [i \in 1..Len(M) |-> [j \in 1..Len(M[1]) |-> (M[i][j] * a) \div q]]
FEye(n) == [i \in 1..n |-> [j \in 1..n |-> IF i = j THEN S ELSE 0]]
FZero(n, m) == [i \in 1..n |-> [j \in 1..m |-> 0]]
FSetMax(T) == CHOOSE m \in T : \A x \in T : x <= m
FMaxAbs(M) == IF Len(M) = 0 \/ FNCols(M) = 0 THEN 0 ELSE FSetMax({FAbs(M[i][j]) : i \in 1..Len(M), j \in 1..Len(M[1])})
FVMaxAbs(v) == IF Len(v) = 0 THEN 0 ELSE FSetMax({FAbs(v[i]) : i \in 1..Len(v)})
FMaxAbsDiff(A, B) == IF Len(A) = 0 \/ FNCols(A) = 0 THEN 0 ELSE FSetMax({FAbs(A[i][j] - B[i][j]) : i \in 1..Len(A), j \in 1..Len(A[1])})
FVMaxAbsDiff(a, b) == IF Len(a) = 0 THEN 0 ELSE FSetMax({FAbs(a[i] - b[i]) : i \in 1..Len(a)})
FSqNorm(v) == FDot(v, v)
FFrob2(M) == FSumR([i \in 1..Len(M) |-> FDot(M[i], M[i])], Len(M))
FTrace(M) == FSumR([i \in 1..Len(M) |-> M[i][i]], Len(M))
SameShape(A, B) == Len(A) = Len(B) /\ (Len(A) = 0 \/ Len(A[1]) = Len(B[1]))

(* units-in-the-last-place budget of a product C = A*B evaluated with FMatMul on   *)
(* operands that are themselves rounded to 1/S: each of the n products carries     *)
(* (|a| + |b|)/S + 1 units of error (operand rounding 1/2 unit each, truncation 1) *)
ProdBudget(n, ma, mb) == n * ((ma + mb) \div S + 2)
MatMulBudget(A, B) == ProdBudget(Len(B), FMaxAbs(A), FMaxAbs(B))

(* magnitude guard: every operand small enough for FMul products to stay < 2^31 *)
Small(M, bound) == FMaxAbs(M) <= bound
=======================================================================
