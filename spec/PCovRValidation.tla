--------------------------- MODULE PCovRValidation ---------------------------
(* Growth module: parameter validation of PCovR as a decision table.  n samples,     *)
(* m features, mn = min(n, m).  Accepted iff the space is known, the regressor is     *)
(* admissible (None, Ridge, RidgeCV, LinearRegression, "precomputed") and the number  *)
(* of components fits the solver:  full: 0..mn, randomized: 1..mn, arpack: 1..mn-1.        *)
EXTENDS Integers, Sequences, TLC, Json
VARIABLES cfg
Solvers == {"full", "arpack", "randomized"}
Spaces == {"feature", "sample", "auto", "bogus"}
Regs == {"none", "ridge", "ridgecv", "lr", "precomputed", "kernelridge"}
Init == cfg \in Solvers \X Spaces \X Regs \X (0..5) \X {<<6, 4>>, <<4, 4>>, <<3, 5>>}
Next == UNCHANGED cfg
Spec == Init /\ [][Next]_cfg
Mn == IF cfg[5][1] < cfg[5][2] THEN cfg[5][1] ELSE cfg[5][2]
\* as coded: the full solver admits 0 <= k <= mn (k = 0 yields an empty latent space), the truncated ones 1 <= k
KOk == IF cfg[1] = "arpack" THEN cfg[4] >= 1 /\ cfg[4] < Mn ELSE IF cfg[1] = "full" THEN cfg[4] >= 0 /\ cfg[4] <= Mn ELSE cfg[4] >= 1 /\ cfg[4] <= Mn
Accept == cfg[2] # "bogus" /\ cfg[3] # "kernelridge" /\ KOk
Emit == PrintT(ToJson([k |-> "E", solver |-> cfg[1], space |-> cfg[2], reg |-> cfg[3], kk |-> cfg[4], n |-> cfg[5][1], m |-> cfg[5][2], accept |-> Accept]))
==============================================================================
