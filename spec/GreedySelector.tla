-------------------------- MODULE GreedySelector --------------------------
(* Reference lifecycle of a greedy selector object (C01, C08, C09 refit part).   *)
(* The scorer is the environment: before each decision it presents an arbitrary  *)
(* table in [Item -> 0..MaxS] in which already selected items score 0 (all       *)
(* families keep the score of a selected item at zero), so TLC explores the      *)
(* bookkeeping for every possible scorer, including exhausted (all-zero) tables. *)
EXTENDS GreedyRef, TLC
CONSTANTS N, MaxS, PreSelect      \* PreSelect: TRUE = FPS family (one initial item), FALSE = CUR family
Item == 1..N
VARIABLES fitted, sel, req, thr, stopped, pc, first, fits
vars == <<fitted, sel, req, thr, stopped, pc, first, fits>>

Requests == {<<"none">>} \cup {<<"int", k>> : k \in 1..N} \cup {<<"frac", p, 4>> : p \in 1..4}
Thresholds == {<<"none">>, <<"abs", 1, 1>>, <<"abs", 3, 2>>, <<"rel", 1, 2>>}
Tables == [Item -> 0..MaxS]
SelectedScoreZero(s) == \A j \in RangeOf(sel) : s[j] = 0

Init == /\ fitted = FALSE /\ sel = <<>> /\ req = 0 /\ thr = <<"none">> /\ stopped = FALSE
        /\ pc = "idle" /\ first = -1 /\ fits = 0

BeginCold(nts, t, i0) ==
    /\ pc = "idle" /\ fits < 3 /\ ValidRequest(nts, N) /\ Resolve(nts, N) >= 1
    /\ sel' = IF PreSelect THEN <<i0>> ELSE <<>>
    /\ req' = Resolve(nts, N) /\ thr' = t /\ stopped' = FALSE /\ first' = -1
    /\ pc' = "fitting" /\ fits' = fits + 1 /\ UNCHANGED fitted
BeginWarm(nts, t) ==
    /\ pc = "idle" /\ fits < 3 /\ fitted /\ Len(sel) > 0 /\ ValidRequest(nts, N)
    /\ Resolve(nts, N) >= Len(sel)                       \* increasing schedules (the documented use)
    /\ req' = Resolve(nts, N) /\ thr' = t /\ stopped' = FALSE
    /\ pc' = "fitting" /\ fits' = fits + 1 /\ UNCHANGED <<fitted, sel, first>>
WarmOnUnfitted == pc = "idle" /\ ~fitted /\ UNCHANGED vars    \* rejected: no state change
Select(s, c) ==
    /\ pc = "fitting" /\ Len(sel) < req /\ SelectedScoreZero(s)
    /\ IsGreedyChoice(N, sel, s, c)
    /\ LET f == IF first = -1 THEN s[c] ELSE first IN
       /\ MayKeep(thr, f, s[c], 0)
       /\ first' = IF thr[1] = "none" THEN first ELSE f
    /\ sel' = Append(sel, c)
    /\ UNCHANGED <<fitted, req, thr, stopped, pc, fits>>
Stop(s) ==
    /\ pc = "fitting" /\ Len(sel) < req /\ Unselected(N, sel) # {} /\ SelectedScoreZero(s)
    /\ LET c == CHOOSE j \in ArgMaxSet(s, Unselected(N, sel)) : TRUE
           f == IF first = -1 THEN s[c] ELSE first
       IN MayStop(thr, f, s[c], 0)
    /\ stopped' = TRUE /\ pc' = "done"
    /\ UNCHANGED <<fitted, sel, req, thr, first, fits>>
Finish == /\ pc = "fitting" /\ Len(sel) = req /\ pc' = "done"
          /\ UNCHANGED <<fitted, sel, req, thr, stopped, first, fits>>
Return == /\ pc = "done" /\ pc' = "idle" /\ fitted' = TRUE
          /\ UNCHANGED <<sel, req, thr, stopped, first, fits>>
Next == \/ \E nts \in Requests, t \in Thresholds, i0 \in Item : BeginCold(nts, t, i0)
        \/ \E nts \in Requests, t \in Thresholds : BeginWarm(nts, t)
        \/ \E s \in Tables, c \in Item : Select(s, c)
        \/ \E s \in Tables : Stop(s)
        \/ Finish \/ Return
Spec == Init /\ [][Next]_vars

(* C01 on the reference design *)
DistinctInv == Distinct(sel) /\ InRange(sel, N)
SizeInv == pc = "done" => (Len(sel) = req \/ (stopped /\ Len(sel) < req))
NeverOver == Len(sel) <= IMax2(req, 1)
StoppedOnlyWithThreshold == stopped => thr[1] # "none"
(* a fit can always complete: either a candidate is selectable or the search may stop *)
Progress == (pc = "fitting" /\ Len(sel) < req) => Unselected(N, sel) # {}
===========================================================================
