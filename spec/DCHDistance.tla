----------------------------- MODULE DCHDistance -----------------------------
(* Implementation-shaped model of DirectionalConvexHull._directional_convex_hull_  *)
(* distance (C19): given the vertical distances d_f of a sample to the planes of the *)
(* lower facets, the code returns  min_f d_f  when no plane distance is below        *)
(* -tolerance, and otherwise the LARGEST negative plane distance.  Inside the        *)
(* footprint the true signed offset from the (convex) hull surface is  min_f d_f, so *)
(* the reported value must have its sign.  TLC checks this for all combinations of   *)
(* plane distances from a small set.  ExcludeZero = FALSE is the pinned snapshot     *)
(* (a plane distance of exactly 0 was kept among the "negative" candidates).         *)
EXTENDS Integers, FiniteSets, TLC
CONSTANTS NF, ExcludeZero
Vals == {-4, -2, 0, 2, 4}            \* plane distances in units of tolerance/2 ... tolerance = 1
Tol == 1
VARIABLES d
Init == d \in [1..NF -> Vals]
Next == UNCHANGED d
Spec == Init /\ [][Next]_d
Min(S) == CHOOSE m \in S : \A x \in S : m <= x
Max(S) == CHOOSE m \in S : \A x \in S : x <= m
Below == \E f \in 1..NF : d[f] < -Tol
Neg == {d[f] : f \in {g \in 1..NF : IF ExcludeZero THEN d[g] < 0 ELSE d[g] <= 0}}
Reported == IF ~Below THEN Min({d[f] : f \in 1..NF}) ELSE Max(Neg)
TrueOffset == Min({d[f] : f \in 1..NF})
SignAgrees == /\ (TrueOffset > Tol => Reported > 0)
              /\ (TrueOffset < -Tol => Reported < 0)
AboveIsOffset == TrueOffset >= 0 => Reported = TrueOffset
(* Named deviation (outside C19, which fixes only the SIGN below the surface): below the  *)
(* surface the code does not report the vertical offset but the plane closest from below, *)
(* |Reported| <= |TrueOffset|, e.g. plane distances (-4, -2) give -2 where the offset from  *)
(* the surface is -4.  BelowIsOffset is expected to FAIL (configuration _belowvalue);     *)
(* BelowIsBounded is what does hold.                                                      *)
BelowIsOffset == TrueOffset < -Tol => Reported = TrueOffset
BelowIsBounded == TrueOffset < -Tol => (TrueOffset <= Reported /\ Reported < 0)
==============================================================================
