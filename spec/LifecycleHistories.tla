-------------------------- MODULE LifecycleHistories --------------------------
(* All call histories of length <= MaxLen over {data A, B, C} x {with y, without y} x   *)
(* {small, large request} (C09).  Every history is printed as JSON and replayed on    *)
(* each estimator class of the catalogue; after each fit the learned state must be    *)
(* that of a fresh estimator fitted with the same arguments.                          *)
EXTENDS Integers, Sequences, TLC, Json
CONSTANTS MaxLen
VARIABLES h
Steps == {"A", "B", "C"} \X BOOLEAN \X {"small", "large"}        \* A and C have the same shape, B another one
Init == h = <<>>
Fit(s) == Len(h) < MaxLen /\ h' = Append(h, s)
Next == \E s \in Steps : Fit(s)
Spec == Init /\ [][Next]_h
Emit == Len(h) > 0 => PrintT(ToJson([k |-> "H", hist |-> [i \in 1..Len(h) |-> [d |-> h[i][1], y |-> h[i][2], n |-> h[i][3]]]]))
===============================================================================
