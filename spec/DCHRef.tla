------------------------------ MODULE DCHRef ------------------------------
(* Reference semantics of the directional (lower) convex hull (C19) on integer    *)
(* points  Pt[i] = <<y, x_1, .., x_d>>  by exact orientation determinants.         *)
EXTENDS IntMat, FiniteSetsExt
HDim(Pt) == Len(Pt[1]) - 1
XRow(p) == <<1>> \o SubSeq(p, 2, Len(p))                  \* homogeneous low-dimensional position
SimplexMat(Pt, t) == [i \in 1..Len(t) |-> XRow(Pt[t[i]])]
Replace(M, i, row) == [r \in 1..Len(M) |-> IF r = i THEN row ELSE M[r]]
(* barycentric numerators of position x (homogeneous row) w.r.t. simplex t, and the common denominator *)
BaryDen(Pt, t) == Det(SimplexMat(Pt, t))
BaryNum(Pt, t, x, i) == Det(Replace(SimplexMat(Pt, t), i, x))
Covers(Pt, t, x) == LET den == BaryDen(Pt, t) IN
                    den # 0 /\ \A i \in 1..Len(t) : (IF den > 0 THEN 1 ELSE -1) * BaryNum(Pt, t, x, i) >= 0
(* interpolated target of the simplex at x as a rational <<num, den>> with den > 0 *)
Interp(Pt, t, x) == LET den == BaryDen(Pt, t)  sg == IF den > 0 THEN 1 ELSE -1
                    IN <<sg * ISumR([i \in 1..Len(t) |-> BaryNum(Pt, t, x, i) * Pt[t[i]][1]], Len(t)), sg * den>>
RatLess(a, b) == a[1] * b[2] < b[1] * a[2]
RatLeq(a, b) == a[1] * b[2] <= b[1] * a[2]
Simplices(S, d) == IF Cardinality(S) < d + 1 THEN {} ELSE {SortSet(T) : T \in kSubset(d + 1, S)}
CoveringInterps(Pt, S, x) == {Interp(Pt, t, x) : t \in {u \in Simplices(S, HDim(Pt)) : Covers(Pt, u, x)}}
InFootprint(Pt, S, x) == CoveringInterps(Pt, S, x) # {}
(* lowest convex combination of the samples S at position x (requires InFootprint) *)
HullAt(Pt, S, x) == LET I == CoveringInterps(Pt, S, x) IN CHOOSE m \in I : \A r \in I : RatLeq(m, r)
(* C19: a sample is a vertex iff its target lies strictly below every convex combination of OTHER samples at its position *)
IsVertex(Pt, N, v) == LET I == CoveringInterps(Pt, (1..N) \ {v}, XRow(Pt[v])) IN
                      \A r \in I : RatLess(<<Pt[v][1], 1>>, r)
Vertices(Pt, N) == {v \in 1..N : IsVertex(Pt, N, v)}
(* vertical offset of (y, x) from the hull of all samples, as a rational *)
Offset(Pt, N, y, x) == LET h == HullAt(Pt, 1..N, x) IN <<y * h[2] - h[1], h[2]>>

(* independent characterisation through supporting facets: a (d+1)-subset spans a lower  *)
(* facet iff it is non-degenerate in x and every other point is on or above its plane     *)
Above(Pt, t, p) == LET r == Interp(Pt, t, XRow(p)) IN RatLeq(r, <<p[1], 1>>)      \* plane value <= y
LowerFacets(Pt, N) == {t \in Simplices(1..N, HDim(Pt)) : BaryDen(Pt, t) # 0 /\ \A p \in 1..N : Above(Pt, t, Pt[p])}
FacetVertices(Pt, N) == UNION {RangeOf(t) : t \in LowerFacets(Pt, N)}

(* general position: every (d+1)-subset non-degenerate in x, and no sample exactly on the plane of d+1 others *)
(* General position.  Samples may share a low-dimensional position (the property speaks of "other samples located at the  *)
(* same low-dimensional position") as long as their targets differ; apart from that no simplex is degenerate and no    *)
(* sample lies exactly on the plane of a simplex it does not belong to.                                                  *)
SamePos(Pt, a, b) == XRow(Pt[a]) = XRow(Pt[b])
GeneralPosition(Pt, N) ==
    /\ \E t \in Simplices(1..N, HDim(Pt)) : BaryDen(Pt, t) # 0                  \* the footprint has full dimension
    /\ \A a \in 1..N, b \in 1..N : (a # b /\ SamePos(Pt, a, b)) => Pt[a][1] # Pt[b][1]
    /\ \A t \in Simplices(1..N, HDim(Pt)) : BaryDen(Pt, t) = 0 => \E i \in 1..Len(t), j \in 1..Len(t) : i # j /\ SamePos(Pt, t[i], t[j])
    /\ \A t \in Simplices(1..N, HDim(Pt)) : BaryDen(Pt, t) # 0 => \A p \in (1..N) \ RangeOf(t) :
           LET r == Interp(Pt, t, XRow(Pt[p])) IN r[1] # Pt[p][1] * r[2]
===========================================================================
