------------------------------ MODULE Lifecycle ------------------------------
(* C09: calls never modify caller data or hyper-parameters; refits start from       *)
(* scratch; calls are deterministic.  Abstract model of ONE estimator object and     *)
(* the caller-owned memory cells, explored by TLC over all call histories of length  *)
(* <= 3 on {data A, data B} x {with y, without y}.                                   *)
(*   learned : what the object remembers = a function of (data, withy) for a correct *)
(*             estimator; the implementation-shaped variants add the two mechanisms  *)
(*             found in the code: a fitted attribute that is only REPLACED when       *)
(*             targets are given (hasattr staleness, Stale = TRUE) and a constructor  *)
(*             hyper-parameter overwritten by fit (WriteBack = TRUE)                 *)
(*   mem     : digest of every caller-owned array (never changes)                    *)
EXTENDS Integers, Sequences, TLC
CONSTANTS Stale, WriteBack, InPlace, StaleCache   \* StaleCache: a lazily filled cache (inverse bandwidths, ...) is not reset by fit
Data == {"A", "B"}
VARIABLES learnedX, learnedY, param, mem, calls, cache, lastOut
vars == <<learnedX, learnedY, param, mem, calls, cache, lastOut>>
Init == learnedX = "none" /\ learnedY = "none" /\ param = "default" /\ mem = [d \in Data |-> "clean"] /\ calls = 0 /\ cache = "empty" /\ lastOut = "none"
\* fit(d, withy): a correct fit overwrites every learned attribute
Fit(d, wy) == /\ calls < 4
              /\ learnedX' = d
              /\ learnedY' = IF wy THEN d ELSE IF Stale THEN learnedY ELSE "none"
              /\ param' = IF WriteBack THEN "calibrated" ELSE param
              /\ mem' = IF InPlace THEN [mem EXCEPT ![d] = "scaled"] ELSE mem
              /\ calls' = calls + 1
              /\ cache' = IF StaleCache THEN cache ELSE "empty"
              /\ lastOut' = "none"
\* a follow-up call (score / predict / transform) fills a cache from the learned state on first use and answers from it
Use == /\ learnedX # "none" /\ calls < 4
       /\ cache' = IF cache = "empty" THEN learnedX ELSE cache
       /\ lastOut' = IF cache = "empty" THEN learnedX ELSE cache
       /\ calls' = calls + 1 /\ UNCHANGED <<learnedX, learnedY, param, mem>>
Next == (\E d \in Data, wy \in BOOLEAN : Fit(d, wy)) \/ Use
Spec == Init /\ [][Next]_vars
\* the state of a fresh estimator fitted on (d, wy)
Fresh(d, wy) == <<d, IF wy THEN d ELSE "none">>
\* history variable free formulation: after any fit the learned state is that of a fresh fit on the last data
RefitIsFresh == [][\A d \in Data, wy \in BOOLEAN : Fit(d, wy) => <<learnedX', learnedY'>> = Fresh(d, wy)]_vars
ParamsUnchanged == param = "default"
MemUnchanged == \A d \in Data : mem[d] = "clean"
\* a follow-up call answers from the CURRENT fit, whatever was computed before the refit
OutputIsCurrent == lastOut # "none" => lastOut = learnedX
==============================================================================
