----------------------------- MODULE Schedules -----------------------------
(* All increasing warm-start schedules n1 < n2 < ... < nj <= N (C08): a history   *)
(* is built one fit at a time; every reachable history is printed as JSON and is   *)
(* replayed on the real selectors.  First = smallest admissible first request      *)
(* (1 for every family).                                                           *)
EXTENDS Integers, Sequences, TLC, Json
CONSTANTS N, MaxFits
VARIABLES sched
Init == sched = <<>>
Fit(k) == /\ Len(sched) < MaxFits
          /\ (IF Len(sched) = 0 THEN TRUE ELSE k > sched[Len(sched)])
          /\ sched' = Append(sched, k)
Next == \E k \in 1..N : Fit(k)
Spec == Init /\ [][Next]_sched
Increasing == \A i \in 1..Len(sched) - 1 : sched[i] < sched[i + 1]
Emit == Len(sched) > 0 => PrintT(ToJson([k |-> "S", sched |-> sched]))
============================================================================
