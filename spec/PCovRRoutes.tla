----------------------------- MODULE PCovRRoutes -----------------------------
(* Growth module: which computational route a PCovR fit takes and how many components *)
(* it retains - the public attributes space_, fit_svd_solver_ and n_components_.      *)
(*   space "auto"/None -> "feature" iff n > m.                                         *)
(*   svd_solver "auto" -> "full" when max(n, m) <= 500 or the request is a fraction,   *)
(*        else "randomized" iff 1 <= k < 0.8 min(n, m), else "full".                    *)
(*   n_components None -> min(n, m), one less for arpack; an integer is taken as is; a *)
(*        fraction f (full solver only) -> the least k whose cumulated explained        *)
(*        variance ratio exceeds f (data with spectrum Lam, mixing = 1).                *)
(* TLC enumerates the decision table; ./check extras replays it into PCovR.fit.        *)
EXTENDS Integers, Sequences, TLC, Json
VARIABLES cfg
Solvers == {"auto", "full", "arpack", "randomized"}
Spaces == {"auto", "none", "feature", "sample"}
KReqs == {<<"none", 0>>} \cup {<<"int", k>> : k \in {0, 1, 2, 3, 4, 9, 10}} \cup {<<"frac", f>> : f \in {1, 3, 4, 5, 7}}
Shapes == {<<6, 4>>, <<4, 6>>, <<5, 5>>, <<520, 4>>, <<4, 520>>, <<520, 12>>}
Spectra == {<<9, 5, 2, 1>>, <<7, 7, 2, 1>>, <<11, 3, 3>>, <<5, 5, 4, 1>>}
Init == cfg \in Solvers \X Spaces \X KReqs \X Shapes \X Spectra
Next == UNCHANGED cfg
Spec == Init /\ [][Next]_cfg
n == cfg[4][1]
m == cfg[4][2]
Mn == IF n < m THEN n ELSE m
Lam == cfg[5]
\* the data are centred, so their rank is at most n - 1: a spectrum longer than that is not realisable
Realisable == Len(Lam) <= Mn /\ Len(Lam) <= n - 1
K0 == IF cfg[3][1] = "none" THEN (IF cfg[1] = "arpack" THEN Mn - 1 ELSE Mn) ELSE cfg[3][2]
IsFrac == cfg[3][1] = "frac"
Solver == IF cfg[1] # "auto" THEN cfg[1]
          ELSE IF (IF n > m THEN n ELSE m) <= 500 \/ IsFrac THEN "full"
          ELSE IF K0 >= 1 /\ 10 * K0 < 8 * Mn THEN "randomized" ELSE "full"
Space == IF cfg[2] \in {"auto", "none"} THEN (IF n > m THEN "feature" ELSE "sample") ELSE cfg[2]
RECURSIVE SumTo(_, _)
SumTo(s, k) == IF k = 0 THEN 0 ELSE s[k] + SumTo(s, k - 1)
Total == SumTo(Lam, Len(Lam))
\* number of prefixes whose cumulated share is <= f/8, plus one (never a tie: Total is odd)
Cardinality0 == LET S == {j \in 1..Len(Lam) : 8 * SumTo(Lam, j) <= cfg[3][2] * Total} IN
                IF S = {} THEN 0 ELSE CHOOSE j \in S : \A i \in S : i <= j

FracK == 1 + Cardinality0
KRes == IF IsFrac THEN FracK ELSE K0
Accept == IF IsFrac THEN Solver = "full"
          ELSE IF Solver = "arpack" THEN K0 >= 1 /\ K0 < Mn
          ELSE IF Solver = "full" THEN K0 >= 0 /\ K0 <= Mn
          ELSE K0 >= 1 /\ K0 <= Mn
Emit == Realisable => PrintT(ToJson([k |-> "E", solver |-> cfg[1], space |-> cfg[2], kreq |-> cfg[3], n |-> n, m |-> m, lam |-> Lam,
                                     accept |-> Accept, rsolver |-> Solver, rspace |-> Space, kres |-> KRes]))
==============================================================================
