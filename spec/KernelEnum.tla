----------------------------- MODULE KernelEnum -----------------------------
(* Complete enumeration of small KernelNormalizer configurations (C12): every 3x2  *)
(* integer feature matrix over Vals, weighting, flag combination and test-set size; *)
(* test features are derived from the training features inside the model.  Each    *)
(* configuration is printed as JSON and replayed in the real class.                *)
EXTENDS Integers, Sequences, TLC, Json
CONSTANTS Vals, Weights
ValSet == {-1, 0, 2}
WeightSet == {<<>>, <<1, 1, 1>>, <<1, 2, 3>>, <<2, 0, 1>>}
VARIABLES cfg
Mats == [1..3 -> [1..2 -> Vals]]
Init == cfg \in Mats \X Weights \X BOOLEAN \X BOOLEAN \X (1..3)
Next == UNCHANGED cfg
Spec == Init /\ [][Next]_cfg
Phi == cfg[1]
AllPsi == << <<Phi[1][1] + Phi[2][1], Phi[1][2] + Phi[2][2]>>, <<Phi[3][1] - Phi[1][1], Phi[3][2] - Phi[1][2]>>, <<2 * Phi[2][1], -Phi[2][2]>> >>
Emit == PrintT(ToJson([k |-> "E", Phi |-> Phi, w |-> cfg[2], wc |-> cfg[3], wt |-> cfg[4], Psi |-> SubSeq(AllPsi, 1, cfg[5])]))
=============================================================================
