------------------------ MODULE VoronoiCalibration ------------------------
(* The timing calibration of VoronoiFPS's switching point as a state machine      *)
(* (C06, "schedules").  The code bisects [0,1] until the bracket is narrower than *)
(* 0.01; in each round the wall-clock comparison "pruned update faster than full  *)
(* update?" can come out either way - modelled as nondeterminism.  The model's    *)
(* complete set of behaviours (2^7 outcomes) is printed as JSON; the harness       *)
(* replays every one of them in the real code with a scripted clock, and each     *)
(* replayed fit must be a behaviour of reference FPS (trace/TraceFPS.tla).        *)
EXTENDS Integers, Sequences, TLC, Json
CONSTANT AcceptZero        \* validation of an explicit switching point: TRUE: 0 <= f <= 1 (current tree), FALSE: 0 < f <= 1 (pinned)
VARIABLES lo, hi, bits         \* bracket in units of 1/128, outcomes so far
vars == <<lo, hi, bits>>
Init == lo = 0 /\ hi = 128 /\ bits = <<>>
Continue == (hi - lo) * 100 > 128            \* top - lower > 0.01
Faster == Continue /\ lo' = (lo + hi) \div 2 /\ hi' = hi /\ bits' = Append(bits, 1)
Slower == Continue /\ hi' = (lo + hi) \div 2 /\ lo' = lo /\ bits' = Append(bits, 0)
Next == Faster \/ Slower
Spec == Init /\ [][Next]_vars
Exact == (lo + hi) % 2 = 0 \/ ~Continue      \* midpoints stay dyadic: results are k/128
ResultInRange == ~Continue => (lo \in 0..127 /\ hi = lo + 1 /\ Len(bits) = 7)
\* fit writes the result into the hyper-parameter; a second fit validates it like an explicit value:
\* every calibration outcome must be a valid parameter, otherwise refitting depends on wall-clock timing
ValidParam(k) == (IF AcceptZero THEN k >= 0 ELSE k > 0) /\ k <= 128
RefitAccepted == ~Continue => ValidParam(lo)
Emit == ~Continue => PrintT(ToJson([k |-> "B", bits |-> bits, result |-> lo]))
===========================================================================
