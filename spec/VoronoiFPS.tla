---------------------------- MODULE VoronoiFPS ----------------------------
(* Implementation-shaped model of skmatter.sample_selection.VoronoiFPS on a 2-D   *)
(* integer lattice (C06).  State as in the code: the table hausdorff_, the cell   *)
(* vlocation_of_idx of every point, the switching point full_fraction (any value  *)
(* the timing calibration can return is an initial state: the outcome of the      *)
(* wall-clock measurement is modelled as nondeterminism), and per step            *)
(*   Active  = _get_active: points j with dSL[cell(j)] < hausdorff[j], where      *)
(*             dSL = |centre - new|^2 / 4  (kept as integers by cross-multiplying)*)
(*   Full / Sparse branch of _update_post_selection, cell reassignment.           *)
(* Property: the model refines reference FPS - after every step the table equals  *)
(* the brute-force table and every choice was a farthest candidate of the TRUE    *)
(* table (so no pruned point could have lowered its distance), for every          *)
(* switching point.  PruneNum/PruneDen = 1/4 is the code's rule; other values are *)
(* used to demonstrate that TLC finds an unsound pruning rule.                    *)
EXTENDS FPSRef, TLC, Json
CONSTANTS N, Coords, FFNums, PruneNum, PruneDen,  \* full_fraction = k/128, k \in FFNums
          Staged     \* TRUE: points are placed one at a time by an action (needed for tlc -simulate with many points: TLC cannot
                     \* enumerate 16^7 initial states); FALSE: every placement is an initial state (exhaustive runs)
Item == 1..N
AllFF == 0..128       \* every result of the calibration (k/128, k < 128) and the explicit value 1.0
VARIABLES P, sel, haus, vloc, ff, lastActive, branch, placed
vars == <<P, sel, haus, vloc, ff, lastActive, branch, placed>>
NoQ == [i \in Item |-> <<>>]
D(i, j) == Dist(P, NoQ, 1, 0, i, j)
Init == /\ IF Staged THEN P = [i \in Item |-> <<0, 0>>] /\ placed = 0 ELSE P \in [Item -> Coords \X Coords] /\ placed = N
        /\ sel = <<>> /\ haus = [i \in Item |-> INF] /\ vloc = [i \in Item |-> 1]
        /\ ff \in FFNums /\ lastActive = N /\ branch = "none"
\* dSL[cell] * PruneDen < haus * ...  with dSL = D(centre, c) * PruneNum / PruneDen
Active(c) == IF Len(sel) = 0 THEN Item
             ELSE {j \in Item : D(sel[vloc[j]], c) * PruneNum < PruneDen * haus[j]}
Update(c) ==
  LET act == Active(c)
      full == Cardinality(act) * 128 > ff * N
      newd == IF full THEN [j \in Item |-> D(j, c)]
              ELSE [j \in Item |-> IF j = c THEN 0 ELSE IF j \in act THEN D(j, c) ELSE haus[j]]
      upd == IF act = {} THEN {} ELSE {j \in Item : newd[j] < haus[j]}
      k == Len(sel) + 1
  IN /\ haus' = IF act = {} THEN haus ELSE [j \in Item |-> IMin2(haus[j], newd[j])]
     /\ vloc' = [j \in Item |-> IF j \in upd \/ j = c THEN k ELSE vloc[j]]
     /\ sel' = Append(sel, c)
     /\ lastActive' = Cardinality(act)
     /\ branch' = IF act = {} THEN "skip" ELSE IF full THEN "full" ELSE "sparse"
     /\ UNCHANGED <<P, ff, placed>>
Place(x, y) == /\ placed < N /\ P' = [P EXCEPT ![placed + 1] = <<x, y>>] /\ placed' = placed + 1
               /\ UNCHANGED <<sel, haus, vloc, ff, lastActive, branch>>
First(c) == placed = N /\ Len(sel) = 0 /\ Update(c)
\* np.argmax over the table with selected items masked: the lowest index among the maxima
Select == /\ placed = N /\ Len(sel) > 0 /\ Len(sel) < N
          /\ LET U == Item \ RangeOf(sel)
                 c == SetMin(ArgMaxSet(haus, U))
             IN Update(c)
Next == (\E c \in Item : First(c)) \/ Select \/ (\E x \in Coords, y \in Coords : Place(x, y))
Spec == Init /\ [][Next]_vars
\* refinement of reference FPS (identity mapping on sel / haus)
TableIsTrue == haus = TrueTable(P, NoQ, 1, 0, N, sel)
ChoiceIsFarthest == [][ Len(sel) > 0 => sel'[Len(sel')] \in Farthest(P, NoQ, 1, 0, N, sel) ]_vars
CellIsNearest == \A j \in Item : Len(sel) > 0 => D(j, sel[vloc[j]]) = haus[j]
\* vacuity probes (expected to be VIOLATED: they show pruning and the sparse branch are exercised)
NeverPrunes == lastActive = N
NeverSparse == branch # "sparse"
\* spec -> code: completed behaviours are printed (simulation configuration only) and their point sets, switching points and
\* initial points are run through the real VoronoiFPS (validated by TraceFPS like any recorded fit)
EmitDone == (placed = N /\ Len(sel) = N) => PrintT(ToJson([k |-> "F", P |-> P, ff |-> ff, sel |-> sel]))
===========================================================================
