------------------------------ MODULE Validation ------------------------------
(* Growth module (beyond the listed properties): the request-validation / error     *)
(* path catalogue of the greedy selectors as a decision table.  TLC enumerates       *)
(* every configuration with the verdict the documentation implies; the harness       *)
(* replays each one on the real classes (./check extras).                            *)
(*   n_to_select : None | integer k | fraction p/4 | a string                        *)
(*   accepted iff  not (full and threshold)  and  the request is well-formed          *)
(*                 (int in [1, N]; float in (0, 1])  and  (warm_start => fitted)      *)
EXTENDS Integers, Sequences, TLC, Json
CONSTANTS N
VARIABLES cfg
Requests == {<<"none">>, <<"str">>} \cup {<<"int", k>> : k \in (-1)..(N + 1)} \cup {<<"frac", p>> : p \in (-1)..6}
Init == cfg \in Requests \X BOOLEAN \X BOOLEAN \X BOOLEAN \X BOOLEAN     \* request, full, threshold, warm, fitted
Next == UNCHANGED cfg
Spec == Init /\ [][Next]_cfg
WellFormed(r) == CASE r[1] = "none" -> TRUE
                   [] r[1] = "str"  -> FALSE
                   [] r[1] = "int"  -> r[2] >= 1 /\ r[2] <= N
                   [] r[1] = "frac" -> r[2] >= 1 /\ r[2] <= 4
Accept == ~(cfg[2] /\ cfg[3]) /\ WellFormed(cfg[1]) /\ (cfg[4] => cfg[5])
\* resolved number of selections (the fit is only meaningful if it is at least one)
Resolved == CASE cfg[1][1] = "none" -> N \div 2
              [] cfg[1][1] = "int"  -> cfg[1][2]
              [] cfg[1][1] = "frac" -> (N * cfg[1][2]) \div 4
              [] OTHER -> 0
Emit == PrintT(ToJson([k |-> "E", n |-> N, req |-> cfg[1], full |-> cfg[2], thr |-> cfg[3], warm |-> cfg[4], fitted |-> cfg[5],
                       accept |-> Accept, resolved |-> IF Accept THEN Resolved ELSE 0]))
===============================================================================
