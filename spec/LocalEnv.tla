-------------------------------- MODULE LocalEnv --------------------------------
(* Growth module: the neighbourhood of the local reconstruction error (LRE).  For a test    *)
(* point q and training positions tr (one integer coordinate each) the local model is       *)
(* fitted on the n_local nearest training points - and on nothing else, whatever the number   *)
(* of test points is.  With ties every k-subset S whose farthest member is not farther than *)
(* the nearest non-member is a valid neighbourhood.  TLC enumerates all configurations of    *)
(* NT training positions and one test position on 0..R with 2 <= k <= NT (training sets with  *)
(* a single distinct position have zero variance and are rejected by the scaler: left out);  *)
(* ./check extras replays every configuration into pointwise_local_reconstruction_error with *)
(* a recording estimator and targets that identify the training rows, once with a single     *)
(* test point and once with the test point repeated (n_test >= n_local), and compares the    *)
(* rows the estimator was fitted on with Valid.                                              *)
EXTENDS Integers, Sequences, FiniteSets, FiniteSetsExt, TLC, Json
CONSTANTS NT, R
VARIABLES tr, q, k
vars == <<tr, q, k>>
Init == /\ tr \in [1..NT -> 0..R] /\ q \in 0..R /\ k \in 2..NT
        /\ \E i, j \in 1..NT : tr[i] # tr[j]
        /\ \A i \in 1..NT - 1 : tr[i] <= tr[i + 1]            \* positions sorted (the replay permutes them)
Next == UNCHANGED vars
Spec == Init /\ [][Next]_vars
D(i) == (tr[i] - q) * (tr[i] - q)
Valid == {S \in kSubset(k, 1..NT) : k = NT \/ Max({D(i) : i \in S}) <= Min({D(j) : j \in (1..NT) \ S})}
\* design-level facts: there is always a valid neighbourhood; it is unique iff the k-th and (k+1)-th distances differ
NonEmpty == Valid # {}
AllNeighbours == k = NT => Valid = {1..NT}
Emit == PrintT(ToJson([k |-> "E", tr |-> tr, q |-> q, nloc |-> k, valid |-> {[i \in 1..NT |-> i \in S] : S \in Valid}]))
=================================================================================
