----------------------------- MODULE Localization -----------------------------
(* Growth module: the adaptive localisation of SparseKDE (fpoints mode),                *)
(* SparseKDE._tune_localization_factor_based_on_fraction_of_points, as a step machine   *)
(* against an ADVERSARIAL population function.                                          *)
(*                                                                                      *)
(* The code looks for a localisation sigma^2 at which the local population f(sigma^2)    *)
(* (a monotone function of sigma^2, equal to the grid point's own weight at 0+) is       *)
(* within delta of the target lim:                                                       *)
(*     grow:    while f < lim: sigma^2 += tune                                           *)
(*     bisect:  j = 1, 2, ...: sigma^2 -= tune/2^j if f > lim else sigma^2 += tune/2^j;   *)
(*              stop as soon as |f - lim| < delta (tested after the step only)            *)
(* sigma^2 is counted in units of tune/2^J.  The population function is not fixed: every  *)
(* query is answered by any value that is monotone and Lipschitz (at most Lip units of    *)
(* value per unit of sigma^2) with respect to all answers given before - TLC explores     *)
(* every such function.  Checked: sigma^2 stays positive; the search never leaves the     *)
(* bracket; "done" implies |f - lim| < delta; with Lip * 1 < Delta the resolution J is    *)
(* never exhausted (NoExhaustion), while a steeper function can exhaust it (the float     *)
(* implementation would then loop until tune / 2**j overflows at j = 1024).               *)
EXTENDS Integers, FiniteSets, TLC
CONSTANTS J,        \* resolution: tune = 2^J units
          V,        \* population values range over W0..V
          W0,       \* the grid point's own weight (population at sigma^2 -> 0)
          Lims,     \* candidate targets; the code guarantees W0 < Lim (lim = own weight + delta otherwise)
          Delta,    \* tolerance
          Lip,      \* Lipschitz bound (value units per sigma^2 unit), as LipNum/LipDen
          LipDen,
          SMax      \* bound on the grow phase (in units of tune)
VARIABLES s, j, f, phase, known, lo, Lim
vars == <<s, j, f, phase, known, lo, Lim>>
Pow2(k) == 2 ^ k
Tune == Pow2(J)
Abs(x) == IF x < 0 THEN -x ELSE x
\* answers compatible with everything said so far; population at sigma^2 <= 0 is not defined (never asked if PositiveSigma holds)
Answers(t) == {v \in W0..V : \A kv \in known \cup {<<0, W0>>} :      \* f(0+) is the point's own weight
                   /\ (kv[1] <= t => kv[2] <= v)
                   /\ (kv[1] >= t => kv[2] >= v)
                   /\ LipDen * Abs(v - kv[2]) <= Lip * Abs(t - kv[1])}
Init == /\ Lim \in {l \in Lims : l > W0}
        /\ s = Tune /\ j = 1 /\ known = {} /\ lo = 0
        /\ f \in {v \in W0..V : LipDen * (v - W0) <= Lip * Tune}
        /\ phase = "start"
Start == /\ phase = "start"
         /\ known' = {<<s, f>>}
         /\ phase' = IF f < Lim THEN "grow" ELSE "bisect"
         /\ UNCHANGED <<s, j, f, lo>>
Grow == /\ phase = "grow" /\ s < SMax * Tune
        /\ s' = s + Tune
        /\ \E v \in Answers(s') : /\ f' = v
                                  /\ known' = known \cup {<<s', v>>}
                                  /\ phase' = IF v < Lim THEN "grow" ELSE "bisect"
        /\ lo' = s
        /\ UNCHANGED j
Bisect == /\ phase = "bisect"
          /\ IF j > J THEN /\ phase' = "exhausted" /\ UNCHANGED <<s, j, f, known, lo>>
             ELSE /\ s' = IF f > Lim THEN s - Pow2(J - j) ELSE s + Pow2(J - j)
                  /\ s' > 0          \* asked only for positive sigma^2: PositiveSigma is checked on s' by the action property below
                  /\ \E v \in Answers(s') : /\ f' = v
                                            /\ known' = known \cup {<<s', v>>}
                                            /\ phase' = IF Abs(v - Lim) < Delta THEN "done" ELSE "bisect"
                  /\ j' = j + 1
                  /\ UNCHANGED lo
\* the step the code would take with a non-positive sigma^2 (exp of a positive number: not a population any more)
BadStep == /\ phase = "bisect" /\ j <= J
           /\ (IF f > Lim THEN s - Pow2(J - j) ELSE s + Pow2(J - j)) <= 0
           /\ phase' = "nonpositive" /\ UNCHANGED <<s, j, f, known, lo>>
Next == (Start \/ Grow \/ Bisect \/ BadStep) /\ UNCHANGED Lim
Spec == Init /\ [][Next]_vars /\ WF_vars(Next)

TypeOK == s \in Int /\ j \in 1..(J + 1) /\ f \in W0..V
PositiveSigma == phase # "nonpositive" /\ s > 0
DoneIsClose == phase = "done" => Abs(f - Lim) < Delta
\* the search stays within one tune of the place where the bracket was found
InBracket == phase \in {"bisect", "done"} => (s > lo /\ s < lo + 2 * Tune)
NoExhaustion == phase # "exhausted"
Terminates == <>(phase \in {"done", "exhausted", "nonpositive"} \/ (phase = "grow" /\ s >= SMax * Tune))
===============================================================================
