----------------------------- MODULE FPSRef -----------------------------
(* Reference semantics of farthest point sampling (C02, C06): pure operators.    *)
(* Items 1..N with coordinate vectors P[i] (and Q[i] for the target part of the  *)
(* PCov distance); squared distance D = wa*|P_i-P_j|^2 + wb*|Q_i-Q_j|^2 in       *)
(* integer lattice units.                                                        *)
EXTENDS GreedyRef

Dist(P, Q, wa, wb, i, j) == wa * SqDist(P[i], P[j]) + (IF wb = 0 THEN 0 ELSE wb * SqDist(Q[i], Q[j]))
(* brute-force table of minimum distances to a selection, never via the update rule *)
TrueTable(P, Q, wa, wb, N, s) ==
    [i \in 1..N |-> IF Len(s) = 0 THEN INF ELSE SetMin({Dist(P, Q, wa, wb, i, s[k]) : k \in 1..Len(s)})]
Farthest(P, Q, wa, wb, N, s) == ArgMaxSet(TrueTable(P, Q, wa, wb, N, s), Unselected(N, s))
(* distance of each selection at the time it was selected *)
SelectDistances(P, Q, wa, wb, N, s) ==
    [i \in 1..Len(s) |-> TrueTable(P, Q, wa, wb, N, SubSeq(s, 1, i - 1))[s[i]]]
NonIncreasingAfterFirst(h) == \A i \in 2..Len(h) - 1 : h[i] >= h[i + 1]
=========================================================================
