--------------------------- MODULE QuickShiftAlg ---------------------------
(* Implementation-shaped model of QuickShift.fit (clustering/_quick_shift.py):     *)
(* the per-point ascent with the path list, the early break on a node whose        *)
(* successor is already rooted and the propagation                                 *)
(*     idxroot[path] := idxroot[idxroot[current]]                                  *)
(* as a step machine  outer -> while -> assign, for both search rules (_qs_next    *)
(* with its nearest-neighbour fallback, _gs_next on the Gabriel graph).  TLC       *)
(* checks, for ALL small lattice inputs x weight orders x cut-offs, that at        *)
(* termination the labelling is valid w.r.t. QuickShiftRef.                        *)
(* AttachFirstRoot = TRUE models the mutation "attach the path to the first root   *)
(* reached" and must produce a counterexample.                                     *)
EXTENDS QuickShiftRef, PeriodicRef, TLC, Json
CONSTANTS N, Coords, Cuts, Mode, ShellK, AttachFirstRoot, Cell,    \* Cell = <<>>: free space, else minimum image
          Staged    \* TRUE: points, weights and cut-offs are chosen one point at a time by an action (for tlc -simulate on larger N)
CellNone == <<>>
Cell44 == <<4, 4>>
Cell35 == <<3, 5>>
Pt(p) == <<p[1], p[2]>>
DD(p, q) == PD2(Pt(p), Pt(q), Cell)
Item == 1..N
NONE == 0
VARIABLES P, W, cut, i, path, cur, root, pc, dm, gab, placed   \* dm, gab: distance matrix / Gabriel graph, computed once
vars == <<P, W, cut, i, path, cur, root, pc, dm, gab, placed>>
D2(a, b) == dm[a][b]
DM == dm
idmin(a) == SetMin(NNset(N, DM, a))                          \* np.argmin: first nearest
\* _qs_next exactly as coded
RECURSIVE ScanQ(_, _, _, _)
ScanQ(a, j, best, dmin) == IF j > N THEN best
                           ELSE IF j # a /\ W[j] > W[a] /\ D2(a, j) < (IF dmin < cut[a] THEN dmin ELSE cut[a])
                                THEN ScanQ(a, j + 1, j, D2(a, j)) ELSE ScanQ(a, j + 1, best, dmin)
QsNext(a) == ScanQ(a, 1, IF W[idmin(a)] > W[a] THEN idmin(a) ELSE a, 1000000)
\* _get_gabriel_graph exactly as coded (strict <) and _gs_next
Gab == gab
RECURSIVE ScanG(_, _, _, _, _)
ScanG(a, nb, j, best, dmin) == IF j > N THEN best
                               ELSE IF j # a /\ W[j] > W[a] /\ D2(a, j) < dmin /\ j \in nb
                                    THEN ScanG(a, nb, j + 1, j, D2(a, j)) ELSE ScanG(a, nb, j + 1, best, dmin)
GsNext(a) == ScanG(a, Shell(N, Gab, a, ShellK), 1, a, 1000000)
NextOf(a) == IF Mode = "cut" THEN QsNext(a) ELSE GsNext(a)
Perms == {f \in [Item -> Item] : \A a, b \in Item : a # b => f[a] # f[b]}
DMof(Q) == [a \in Item |-> [b \in Item |-> DD(Q[a], Q[b])]]
Init == IF Staged
        THEN /\ P = [a \in Item |-> <<0, 0>>] /\ W = [a \in Item |-> 0] /\ cut = [a \in Item |-> 0] /\ placed = 0
             /\ dm = <<>> /\ gab = <<>>
             /\ i = 1 /\ path = <<>> /\ cur = NONE /\ root = [a \in Item |-> NONE] /\ pc = "place"
        ELSE /\ P \in [Item -> Coords \X Coords] /\ W \in Perms
             /\ cut \in (IF Mode = "cut" THEN [Item -> Cuts] ELSE {[a \in Item |-> 0]})
             /\ dm = DMof(P)
             /\ gab = (IF Mode = "cut" THEN <<>> ELSE GabrielMay(N, DMof(P)))
             /\ placed = N
             /\ i = 1 /\ path = <<>> /\ cur = NONE /\ root = [a \in Item |-> NONE] /\ pc = "outer"
\* staged generation: one point (position, distinct weight, cut-off) per step, then the matrices are computed
Place(x, y, w, c) == /\ pc = "place" /\ placed < N /\ \A a \in 1..placed : W[a] # w
                     /\ LET P2 == [P EXCEPT ![placed + 1] = <<x, y>>] IN
                        /\ P' = P2 /\ W' = [W EXCEPT ![placed + 1] = w] /\ cut' = [cut EXCEPT ![placed + 1] = c]
                        /\ placed' = placed + 1
                        /\ IF placed + 1 = N
                           THEN /\ dm' = DMof(P2) /\ gab' = (IF Mode = "cut" THEN <<>> ELSE GabrielMay(N, DMof(P2))) /\ pc' = "outer"
                           ELSE UNCHANGED <<dm, gab, pc>>
                     /\ UNCHANGED <<i, path, cur, root>>
Outer == /\ pc = "outer" /\ i <= N
         /\ IF root[i] # NONE THEN i' = i + 1 /\ UNCHANGED <<path, cur, root, pc>>
            ELSE path' = <<i>> /\ cur' = i /\ pc' = "while" /\ UNCHANGED <<i, root>>
         /\ UNCHANGED <<P, W, cut, dm, gab, placed>>
While == /\ pc = "while"
         /\ IF cur = root[cur] THEN pc' = "assign" /\ UNCHANGED <<root, path, cur>>
            ELSE LET nx == NextOf(cur) r2 == [root EXCEPT ![cur] = nx] IN
                 /\ root' = r2
                 /\ IF r2[nx] # NONE THEN pc' = "assign" /\ UNCHANGED <<path, cur>>
                    ELSE path' = Append(path, nx) /\ cur' = nx /\ pc' = "while"
         /\ UNCHANGED <<P, W, cut, i, dm, gab, placed>>
Assign == /\ pc = "assign"
          /\ LET r == IF AttachFirstRoot THEN root[cur] ELSE root[root[cur]] IN
             root' = [a \in Item |-> IF a \in RangeOf(path) THEN r ELSE root[a]]
          /\ i' = i + 1 /\ pc' = "outer" /\ path' = <<>> /\ cur' = NONE
          /\ UNCHANGED <<P, W, cut, dm, gab, placed>>
Next == Outer \/ While \/ Assign \/ (\E x \in Coords, y \in Coords, w \in Item, c \in (IF Mode = "cut" THEN Cuts ELSE {0}) : Place(x, y, w, c))
Spec == Init /\ [][Next]_vars
AllowedRef(a) == IF Mode = "cut" THEN AllowedCut(N, DM, W, cut, a) ELSE AllowedGab(N, DM, W, Gab, ShellK, a)
Done == i > N /\ pc = "outer"
Correct == Done => (Valid(N, root, AllowedRef) /\ HeaviestIsCenter(N, W, root) /\ Idempotent(N, root))
\* spec -> code: terminated behaviours are printed (simulation configurations only) and replayed into the real QuickShift.fit;
\* the model breaks ties exactly as the code does (first index), so the labels must be IDENTICAL
EmitDone == Done => PrintT(ToJson([k |-> "Q", mode |-> Mode, shell |-> ShellK, P |-> P, W |-> W, cut |-> cut, root |-> root]))
\* the code's Gabriel graph (strict <) lies between Must and May
GabrielOK == Mode = "cut" \/ pc = "place" \/ (GraphBetween(N, Gab, GabrielMust(N, DM), GabrielMay(N, DM)) /\ GSymmetric(N, Gab))
============================================================================
