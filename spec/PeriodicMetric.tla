--------------------------- MODULE PeriodicMetric ---------------------------
(* Metric laws of the reference minimum-image distance, checked exhaustively by   *)
(* TLC on all triples of lattice points of {-2L..2L}^d (initial states = triples).*)
EXTENDS PeriodicRef, TLC
CONSTANTS Cell, Span       \* Cell: tuple of side lengths; Span: multiples of the side covered on each side
Cell_1d3 == <<3>>
Cell_1d5 == <<5>>
Cell_1d2 == <<2>>
Cell_2d23 == <<2, 3>>
Cell_2d35 == <<3, 5>>
Dim == Len(Cell)
Pts == IF Dim = 1 THEN {<<a>> : a \in (-Span * Cell[1])..(Span * Cell[1])}
       ELSE {<<a, b>> : a \in (-Span * Cell[1])..(Span * Cell[1]), b \in (-Span * Cell[2])..(Span * Cell[2])}
VARIABLES x, y, z
Init == x \in Pts /\ y \in Pts /\ z \in Pts
Next == UNCHANGED <<x, y, z>>
Spec == Init /\ [][Next]_<<x, y, z>>
D(a, b) == PD2(a, b, Cell)
Shift(a, k) == [i \in 1..Dim |-> a[i] + k[i] * Cell[i]]
Shifts == IF Dim = 1 THEN {<<k>> : k \in -2..2} ELSE {<<k, m>> : k \in -1..1, m \in -2..2}
Symmetric == D(x, y) = D(y, x)
NonNegative == D(x, y) >= 0
ZeroOnImages == \A k \in Shifts : D(x, Shift(x, k)) = 0
ShiftInvariant == \A k \in Shifts : D(Shift(x, k), y) = D(x, y) /\ D(x, Shift(y, k)) = D(x, y)
AtMostFree == D(x, y) <= SqDist(x, y)
AtMostHalfDiagonal == 4 * D(x, y) <= ISumR([i \in 1..Dim |-> Cell[i] * Cell[i]], Dim)
\* d(x,z) <= d(x,y) + d(y,z)  <=>  (Dxz - Dxy - Dyz)^2 <= 4 Dxy Dyz  whenever Dxz > Dxy + Dyz
Triangle == LET a == D(x, y) b == D(y, z) c == D(x, z) IN (c > a + b) => ((c - a - b) * (c - a - b) <= 4 * a * b)
ZeroIffImage == (D(x, y) = 0) <=> (\A i \in 1..Dim : Mod(x[i] - y[i], Cell[i]) = 0)
=============================================================================
