-------------------------------- MODULE DCH --------------------------------
(* Design-level check of the reference (C19): on ALL small integer point sets in   *)
(* general position the "strictly below every convex combination of the others"    *)
(* characterisation coincides with the supporting-facet lower hull, vertices have  *)
(* offset zero, the others a positive offset, and the selection is invariant under *)
(* adding a point strictly above the hull and under positive affine maps of y.     *)
EXTENDS DCHRef, TLC
CONSTANTS N, D, YS, XS
VARIABLES Pt
PtSet == IF D = 1 THEN {<<y, a>> : y \in YS, a \in XS} ELSE {<<y, a, b>> : y \in YS, a \in XS, b \in XS}
Key(p) == IF D = 1 THEN p[1] * 100 + p[2] ELSE p[1] * 10000 + p[2] * 100 + p[3]
\* point SETS: only lexicographically increasing sequences of distinct points (the laws do not depend on the order)
Init == Pt \in [1..N -> PtSet] /\ (\A i \in 1..N - 1 : Key(Pt[i]) < Key(Pt[i + 1]))
Next == UNCHANGED Pt
Spec == Init /\ [][Next]_Pt
GP == GeneralPosition(Pt, N)
AgreesWithFacets == GP => Vertices(Pt, N) = FacetVertices(Pt, N)
VertexOffsetZero == GP => \A v \in Vertices(Pt, N) : Offset(Pt, N, Pt[v][1], XRow(Pt[v]))[1] = 0
OthersPositive == GP => \A v \in (1..N) \ Vertices(Pt, N) : Offset(Pt, N, Pt[v][1], XRow(Pt[v]))[1] > 0
NothingBelow == \A v \in 1..N : InFootprint(Pt, 1..N, XRow(Pt[v])) => Offset(Pt, N, Pt[v][1], XRow(Pt[v]))[1] >= 0
\* drop the last point if it is strictly above the hull of the others: same vertices
Without(k) == [i \in 1..N - 1 |-> IF i < k THEN Pt[i] ELSE Pt[i + 1]]
Renum(S, k) == {IF i < k THEN i ELSE i + 1 : i \in S}
AddAbove == \A k \in 1..N : LET M == N - 1  P2 == Without(k) x == XRow(Pt[k]) IN
            (GP /\ InFootprint(P2, 1..M, x) /\ Offset(P2, M, Pt[k][1], x)[1] > 0) => Vertices(Pt, N) = Renum(Vertices(P2, M), k)
Affine == LET P2 == [i \in 1..N |-> [Pt[i] EXCEPT ![1] = 3 * Pt[i][1] - 2]] IN
          /\ Vertices(P2, N) = Vertices(Pt, N)
          /\ \A v \in 1..N : InFootprint(Pt, 1..N, XRow(Pt[v])) =>
                 LET a == Offset(Pt, N, Pt[v][1], XRow(Pt[v])) b == Offset(P2, N, P2[v][1], XRow(P2[v])) IN b[1] * a[2] = 3 * a[1] * b[2]
NonVacuous == ~GP        \* expected to be violated: general-position inputs exist
============================================================================
