--------------------------- MODULE QuickShiftRef ---------------------------
(* Reference semantics of quick-shift clustering (C16), declarative.              *)
(* Points 1..N, squared distances D[a][b] (integers, lattice units), distinct      *)
(* weights W.  Strict comparisons are three-valued: at exact equality (a point     *)
(* exactly at the cut-off, a third point exactly on a Gabriel sphere, two          *)
(* equidistant candidates) both outcomes are behaviours of the specification.      *)
EXTENDS IntMat
Others(N, a) == (1..N) \ {a}
NNset(N, D, a) == ArgMinSet(D[a], Others(N, a))
Heavier(N, W, a) == {b \in Others(N, a) : W[b] > W[a]}

(* --- cut-off mode --- *)
Fallback(N, D, W, a) ==
    {b \in NNset(N, D, a) : W[b] > W[a]} \cup (IF \E b \in NNset(N, D, a) : W[b] <= W[a] THEN {a} ELSE {})
AllowedCut(N, D, W, cut, a) ==
    LET must == {b \in Heavier(N, W, a) : D[a][b] < cut[a]}
        edge == {b \in Heavier(N, W, a) : D[a][b] = cut[a]}
    IN IF must # {} THEN ArgMinSet(D[a], must)
       ELSE edge \cup Fallback(N, D, W, a)

(* --- Gabriel mode --- *)
GabrielMust(N, D) == [i \in 1..N |-> [j \in 1..N |-> i # j /\ ~\E k \in (1..N) \ {i, j} : D[i][k] + D[j][k] <= D[i][j]]]
GabrielMay(N, D)  == [i \in 1..N |-> [j \in 1..N |-> i # j /\ ~\E k \in (1..N) \ {i, j} : D[i][k] + D[j][k] <  D[i][j]]]
GraphBetween(N, G, lo, hi) == \A i, j \in 1..N : (lo[i][j] => G[i][j]) /\ (G[i][j] => hi[i][j])
GSymmetric(N, G) == \A i, j \in 1..N : G[i][j] = G[j][i]
RECURSIVE Reach(_, _, _, _)
Reach(N, G, S, s) == IF s = 0 THEN S ELSE Reach(N, G, S \cup {j \in 1..N : \E i \in S : G[i][j]}, s - 1)
Shell(N, G, a, s) == Reach(N, G, {j \in 1..N : G[a][j]}, s - 1)
AllowedGab(N, D, W, G, s, a) ==
    LET cand == Shell(N, G, a, s) \cap Heavier(N, W, a) IN
    IF cand = {} THEN {a} ELSE ArgMinSet(D[a], cand)

(* --- validity of a labelling (root[a] = centre of a) --- *)
Valid(N, root, Allowed(_)) ==
    \A a \in 1..N : \/ root[a] = a /\ a \in Allowed(a)
                    \/ root[a] # a /\ \E b \in Allowed(a) \ {a} : root[b] = root[a]
Centers(N, root) == {a \in 1..N : root[a] = a}
Idempotent(N, root) == \A a \in 1..N : root[a] \in 1..N /\ root[root[a]] = root[a]
HeaviestIsCenter(N, W, root) == \A a \in 1..N : (\A b \in 1..N : W[b] <= W[a]) => root[a] = a
============================================================================
