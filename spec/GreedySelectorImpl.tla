------------------------ MODULE GreedySelectorImpl ------------------------
(* Implementation-shaped model of GreedySelector.fit (src/skmatter/_selection.py) *)
(* for C01 / C08: one action per critical section of the code -                   *)
(*   FitBegin  = request resolution + _init_greedy_search / _continue_greedy_search*)
(*               (buffer allocation, zero padding, warm-start re-scoring),         *)
(*   Loop      = one iteration: _get_best_new_selection (argmax, threshold) then   *)
(*               _update_post_selection, or the threshold-stop truncations,        *)
(*   Return    = _postprocess (support mask) and return.                           *)
(* Buffers are modelled as the code keeps them: fixed-length sequences padded with *)
(* PAD, a separate counter nsel, the loop index n.                                 *)
(* Three toggles describe code variants; the values TRUE are the current tree (the *)
(* pinned snapshot had FALSE for all three, see known_findings.json "fixed"):      *)
(*   FixTrunc  - threshold stop truncates the index vector to nsel (not to n)      *)
(*   FixMask   - argmax ignores already selected items                             *)
(*   FixRezero - a warm start of the never-refreshed CUR family re-zeroes the      *)
(*               scores of the selected items after recomputing the table          *)
EXTENDS Integers, Sequences, FiniteSets, TLC, FiniteSetsExt, SequencesExt
CONSTANTS N, MaxS, Family,            \* "fps" (one pre-selected item, selected items score 0) | "cur1" | "cur0"
          FixTrunc, FixMask, FixRezero
Item == 1..N
PAD == 0
VARIABLES fitted, nsel, idx, xbuf, support, pc, niter, n, req, thr, base, pi, fits, stp
vars == <<fitted, nsel, idx, xbuf, support, pc, niter, n, req, thr, base, pi, fits, stp>>
Zeros(k) == [i \in 1..k |-> PAD]
SelSet == {idx[i] : i \in 1..nsel}
Init == /\ fitted = FALSE /\ nsel = 0 /\ idx = <<>> /\ xbuf = <<>> /\ support = {}
        /\ pc = "idle" /\ niter = 0 /\ n = 0 /\ req = 0 /\ thr = 0 /\ fits = 0 /\ stp = FALSE
        /\ base \in [Item -> 1..MaxS]          \* cur0: the never-refreshed importance table
        /\ pi = base
PadTo(s, k) == s \o Zeros(k - Len(s))
FitBegin(k, t, warm) ==
   /\ pc = "idle" /\ fits < 3
   /\ IF warm THEN /\ fitted /\ nsel > 0 /\ k >= nsel          \* increasing schedules only
                   /\ Len(idx) >= nsel   \* after a truncating threshold stop the code's re-padding raises: no step
                   /\ idx' = PadTo(SubSeq(idx, 1, nsel), k) /\ xbuf' = PadTo(xbuf, k)
                   /\ pi' = IF Family = "cur0"
                            THEN (IF FixRezero THEN [j \in Item |-> IF j \in SelSet THEN 0 ELSE base[j]] ELSE base)
                            ELSE pi
                   /\ nsel' = nsel /\ niter' = k - nsel
              ELSE /\ IF Family = "fps"
                      THEN idx' = <<1>> \o Zeros(k-1) /\ xbuf' = <<1>> \o Zeros(k-1) /\ nsel' = 1 /\ niter' = k - 1
                      ELSE idx' = Zeros(k) /\ xbuf' = Zeros(k) /\ nsel' = 0 /\ niter' = k
                   /\ pi' = base
   /\ fitted' = TRUE /\ req' = k /\ thr' = t /\ n' = 0 /\ pc' = "loop" /\ fits' = fits + 1 /\ stp' = FALSE
   /\ UNCHANGED <<support, base>>
\* the score table a scorer of the family may present before a decision
Tables == CASE Family = "cur0" -> {pi}
            [] OTHER -> {s \in [Item -> 0..MaxS] : \A j \in SelSet : s[j] = 0}
ArgMaxFirst(s) == LET m == Max({s[j] : j \in Item}) IN Min({j \in Item : s[j] = m})
ArgMaxMasked(s) == LET U == Item \ SelSet  m == Max({s[j] : j \in U}) IN Min({j \in U : s[j] = m})
Postprocess(ix) == support' = {ix[i] : i \in 1..Len(ix)} \ {PAD}
Loop == /\ pc = "loop"
        /\ IF n >= niter THEN /\ Postprocess(idx) /\ pc' = "done" /\ UNCHANGED <<nsel, idx, xbuf, n, pi, stp>>
           ELSE \E s \in Tables :
                LET c == IF FixMask THEN ArgMaxMasked(s) ELSE ArgMaxFirst(s) IN
                IF thr > 0 /\ s[c] < thr
                THEN /\ xbuf' = SubSeq(xbuf, 1, nsel)
                     /\ idx' = SubSeq(idx, 1, IF FixTrunc THEN nsel ELSE n)
                     /\ Postprocess(SubSeq(idx, 1, IF FixTrunc THEN nsel ELSE n))
                     /\ pc' = "done" /\ stp' = TRUE /\ UNCHANGED <<nsel, n, pi>>
                ELSE /\ idx' = [idx EXCEPT ![nsel+1] = c] /\ xbuf' = [xbuf EXCEPT ![nsel+1] = c]
                     /\ nsel' = nsel + 1 /\ n' = n + 1
                     /\ pi' = IF Family = "cur0" THEN [pi EXCEPT ![c] = 0] ELSE pi
                     /\ pc' = "loop" /\ UNCHANGED <<support, stp>>
        /\ UNCHANGED <<fitted, niter, req, thr, base, fits>>
Return == pc = "done" /\ pc' = "idle" /\ UNCHANGED <<fitted, nsel, idx, xbuf, support, niter, n, req, thr, base, pi, fits, stp>>
Begin == \E k \in 1..N, t \in {0, 1}, w \in BOOLEAN : FitBegin(k, t, w)
Next == Begin \/ Loop \/ Return
Spec == Init /\ [][Next]_vars
\* C01 at every return
LenOK      == pc = "done" => Len(idx) = nsel
Distinct   == pc = "done" => \A i, j \in 1..Len(idx) : i # j => idx[i] # idx[j]
ViewsOK    == pc = "done" => (xbuf = idx /\ support = {idx[i] : i \in 1..Len(idx)})
SizeOK     == pc = "done" => (nsel = req \/ thr > 0)
NoPadLeft  == pc = "done" => \A i \in 1..Len(idx) : idx[i] # PAD
\* the same, for fits that were not ended by the threshold (what holds on the current tree, where the
\* threshold-stop truncation is a recorded known finding)
LenOKUnlessStopped   == (pc = "done" /\ ~stp) => Len(idx) = nsel
ViewsOKUnlessStopped == (pc = "done" /\ ~stp) => (xbuf = idx /\ support = {idx[i] : i \in 1..Len(idx)})
\* the known finding is exactly: the index vector is cut at the loop counter
TruncationShape == (pc = "done" /\ stp) => (Len(idx) = (IF FixTrunc THEN nsel ELSE n) /\ Len(xbuf) = nsel)
\* C08 for the never-refreshed family: a chain ends where a cold fit would (lowest-index argmax of base, distinct)
RECURSIVE ColdSel(_, _)
ColdSel(s, k) == IF Len(s) >= k THEN s ELSE
                 LET U == Item \ {s[i] : i \in 1..Len(s)} m == Max({base[j] : j \in U}) IN
                 ColdSel(Append(s, Min({j \in U : base[j] = m})), k)
HistIndep  == (pc = "done" /\ Family = "cur0" /\ thr = 0) => idx = ColdSel(<<>>, req)
===========================================================================
