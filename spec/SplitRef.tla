------------------------------- MODULE SplitRef -------------------------------
(* Growth module: skmatter.model_selection.train_test_split with train_test_overlap. *)
(* Sizes and membership are discrete: for n samples, train fraction tr/8 and test     *)
(* fraction te/8 the train set has floor(tr*n/8) and the test set ceil(te*n/8)        *)
(* elements (sklearn's rule), both are sets of distinct samples of the data; without  *)
(* overlap they are disjoint and the call is rejected when the sizes exceed n, with   *)
(* overlap they are drawn independently and may intersect.  TLC enumerates all        *)
(* configurations; ./check extras replays them.                                       *)
EXTENDS Integers, Sequences, TLC, Json
VARIABLES cfg
Init == cfg \in (4..9) \X (1..8) \X (1..8) \X BOOLEAN       \* n, tr, te (eighths), overlap
Next == UNCHANGED cfg
Spec == Init /\ [][Next]_cfg
n == cfg[1]
NTrain == (cfg[2] * n) \div 8
NTest == (cfg[3] * n + 7) \div 8
\* sklearn validates each split on its own: the requested part and its complement must be non-empty, and without
\* overlap the two fractions may not sum to more than one; with overlap a fraction of exactly one returns all samples
PartOK(k, full) == full \/ (k >= 1 /\ n - k >= 1)
Accept == IF cfg[4] THEN PartOK(NTrain, cfg[2] = 8) /\ PartOK(NTest, cfg[3] = 8)
          ELSE cfg[2] + cfg[3] <= 8 /\ NTrain >= 1 /\ NTest >= 1
Emit == PrintT(ToJson([k |-> "E", n |-> n, tr |-> cfg[2], te |-> cfg[3], overlap |-> cfg[4], accept |-> Accept,
                       ntrain |-> IF cfg[4] /\ cfg[2] = 8 THEN n ELSE NTrain, ntest |-> IF cfg[4] /\ cfg[3] = 8 THEN n ELSE NTest]))
===============================================================================
