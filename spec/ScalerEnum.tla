----------------------------- MODULE ScalerEnum -----------------------------
(* Complete enumeration of small StandardFlexibleScaler configurations (C11):      *)
(* every 3x2 matrix over Vals, weight vector, flag combination.  Each              *)
(* configuration is printed as JSON together with the exact verdict of the         *)
(* variance guard, and is replayed in the real class (spec -> code).               *)
EXTENDS Integers, Sequences, TLC, Json
CONSTANTS Vals, Weights
ValSet == {-1, 0, 2}
WeightSet == {<<>>, <<1, 1, 1>>, <<0, 1, 2>>, <<2, 1, 1>>}
VARIABLES cfg
Flags == BOOLEAN \X BOOLEAN \X BOOLEAN
Mats == [1..3 -> [1..2 -> Vals]]
Init == cfg \in Mats \X Weights \X Flags
Next == UNCHANGED cfg
Spec == Init /\ [][Next]_cfg
Emit == PrintT(ToJson([k |-> "E", X |-> cfg[1], w |-> cfg[2], wm |-> cfg[3][1], ws |-> cfg[3][2], cw |-> cfg[3][3]]))
=============================================================================
