------------------------------ MODULE ReconEnum ------------------------------
(* Scenario matrix for the reconstruction measures (C13): every pair of feature    *)
(* dimensions (X wider, equal, narrower than Y) x kind of transformation under     *)
(* which the measures must not change x rational rotation angle.  Enumerated by    *)
(* TLC, replayed on the real functions.                                            *)
EXTENDS Integers, Sequences, TLC, Json
VARIABLES sc
Kinds == {"rotate-source", "reflect-source", "scale-source", "scale-target", "shift-source", "shift-target", "rotate-target"}
Angles == { <<3, 4, 5>>, <<5, 12, 13>> }
Init == sc \in (1..5) \X (1..5) \X Kinds \X Angles
Next == UNCHANGED sc
Spec == Init /\ [][Next]_sc
Emit == PrintT(ToJson([k |-> "E", dx |-> sc[1], dy |-> sc[2], kind |-> sc[3], angle |-> sc[4]]))
==============================================================================
