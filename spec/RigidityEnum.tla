---------------------------- MODULE RigidityEnum ----------------------------
(* Enumeration of the discrete shape of prediction-rigidity calls (C20): numbers   *)
(* of environments per training / test structure (incl. single-environment         *)
(* structures) and the partition of the feature vector into components.  Every     *)
(* shape is printed as JSON and replayed with integer data in the real functions.  *)
EXTENDS Integers, Sequences, TLC, Json
VARIABLES shape
Sizes == 1..3
SeqsUpTo(lo, hi) == UNION {[1..k -> Sizes] : k \in lo..hi}
Compositions == { <<1>>, <<2>>, <<1, 1>>, <<3>>, <<1, 2>>, <<2, 1>>, <<1, 1, 1>> }
Init == shape \in SeqsUpTo(2, 4) \X SeqsUpTo(1, 3) \X Compositions
Next == UNCHANGED shape
Spec == Init /\ [][Next]_shape
Emit == PrintT(ToJson([k |-> "E", train |-> shape[1], test |-> shape[2], comp |-> shape[3]]))
=============================================================================
