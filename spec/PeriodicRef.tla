---------------------------- MODULE PeriodicRef ----------------------------
(* Reference definition of the minimum-image squared distance on integer points  *)
(* in a rectangular cell (C15, used by C16 / C17 too).  Wrap does not depend on  *)
(* the rounding mode at exactly half a cell.                                     *)
EXTENDS IntMat
Mod(a, L) == a % L                                    \* TLA+ % is the non-negative remainder for L > 0
Wrap(d, L) == LET r == Mod(d, L) IN IMin2(r, L - r)
(* cell = <<>> means free space *)
PD2(x, y, cell) == IF Len(cell) = 0 THEN SqDist(x, y)
                   ELSE ISumR([k \in 1..Len(x) |-> Wrap(x[k] - y[k], cell[k]) * Wrap(x[k] - y[k], cell[k])], Len(x))
(* signed minimum-image difference (representative with |.| <= L/2); at exactly   *)
(* half a cell both signs are images of each other, quadratic forms with a        *)
(* non-diagonal precision then differ, so such pairs are excluded by HalfCell     *)
WrapS(d, L) == LET r == Mod(d, L) IN IF 2 * r <= L THEN r ELSE r - L
HalfCell(x, y, cell) == Len(cell) > 0 /\ \E k \in 1..Len(x) : 2 * Mod(x[k] - y[k], cell[k]) = cell[k]
Diff(x, y, cell) == [k \in 1..Len(x) |-> IF Len(cell) = 0 THEN x[k] - y[k] ELSE WrapS(x[k] - y[k], cell[k])]
(* Mahalanobis with precision M = L L^T (L integer): |L^T d|^2 *)
MahaD2(x, y, cell, L) == LET d == Diff(x, y, cell)
                             v == [j \in 1..Len(L[1]) |-> ISumR([k \in 1..Len(d) |-> L[k][j] * d[k]], Len(d))]
                         IN IDot(v, v)
============================================================================
