---------------------------- MODULE GreedyRef ----------------------------
(* Reference semantics of greedy forward selection (properties C01, C08).        *)
(* Pure operators only, shared by the exhaustive model GreedySelector.tla, the   *)
(* implementation-shaped model GreedySelectorImpl.tla and the trace              *)
(* specification trace/TraceGreedy.tla, so that there is one source of truth.    *)
(*                                                                               *)
(* Items are 1..N.  A score table is a function Item -> Int (lattice units; the  *)
(* sentinel INF stands for +infinity).  The requested size is given in the form  *)
(* the caller used:  <<"none">> | <<"int", k>> | <<"frac", p, q>>  (p/q of N).   *)
(* A threshold is  <<"none">> | <<"abs", p, q>> | <<"rel", p, q>>  (value p/q).  *)
EXTENDS IntMat

INF == 2000000000

Resolve(nts, N) == CASE nts[1] = "none" -> N \div 2
                     [] nts[1] = "int"  -> nts[2]
                     [] nts[1] = "frac" -> (N * nts[2]) \div nts[3]
ValidRequest(nts, N) == CASE nts[1] = "none" -> TRUE
                          [] nts[1] = "int"  -> nts[2] >= 1 /\ nts[2] <= N
                          [] nts[1] = "frac" -> nts[2] >= 1 /\ nts[2] <= nts[3]
                          [] OTHER -> FALSE

Unselected(N, sel) == (1..N) \ RangeOf(sel)
Distinct(s) == \A i, j \in 1..Len(s) : i # j => s[i] # s[j]
InRange(s, N) == \A i \in 1..Len(s) : s[i] \in 1..N

(* a greedy decision: c is a best not-yet-selected candidate of the table *)
IsGreedyChoice(N, sel, score, c) == /\ c \in Unselected(N, sel)
                                    /\ c \in ArgMaxSet(score, Unselected(N, sel))

(* threshold comparison  score < thr  in exact arithmetic; `first` is the score  *)
(* of the first greedy decision (relative thresholds); tol = lattice units of    *)
(* quantisation slack: within tol both outcomes are behaviours of the spec       *)
BelowThr(thr, first, v, tol) ==
    CASE thr[1] = "none" -> FALSE
      [] thr[1] = "abs"  -> v * thr[3] < thr[2] - tol * thr[3]
      [] thr[1] = "rel"  -> v * thr[3] < thr[2] * first - tol * (thr[3] + thr[2])
NotBelowThr(thr, first, v, tol) ==
    CASE thr[1] = "none" -> TRUE
      [] thr[1] = "abs"  -> v * thr[3] >= thr[2] + tol * thr[3]
      [] thr[1] = "rel"  -> v * thr[3] >= thr[2] * first + tol * (thr[3] + thr[2])
MayStop(thr, first, v, tol) == thr[1] # "none" /\ ~NotBelowThr(thr, first, v, tol)
MayKeep(thr, first, v, tol) == ~BelowThr(thr, first, v, tol)

(* the final state of a successful fit, as every public view reports it          *)
(*   p.nsel       n_selected_                                                    *)
(*   p.idx        selected_idx_ (1-based)                                        *)
(*   p.xsel[i]    set of input items whose column/row equals stored column/row i *)
(*   p.hasy, p.ysel[i]   same for the stored targets (sample selectors)          *)
(*   p.support    boolean mask,  p.sorted / p.ordered  get_support(indices=True) *)
(*   p.hastr, p.tcols[i]  items equal to column i of transform(X)                *)
ConsistentClause(N, sel, want, stopped, p) ==
    IF p.nsel # Len(sel) THEN "n_selected-differs-from-selections-made"
    ELSE IF Len(p.idx) # p.nsel THEN "len(selected_idx)-differs-from-n_selected"
    ELSE IF p.idx # sel THEN "selected_idx-differs-from-selection-order"
    ELSE IF ~InRange(sel, N) THEN "index-out-of-range"
    ELSE IF ~Distinct(sel) THEN "selection-not-distinct"
    ELSE IF p.nsel # want /\ ~stopped THEN "size-differs-from-n_to_select"
    ELSE IF p.nsel > want THEN "more-selections-than-requested"
    ELSE IF Len(p.xsel) # p.nsel THEN "stored-X-has-wrong-length"
    ELSE IF \E i \in 1..p.nsel : sel[i] \notin RangeOf(p.xsel[i]) THEN "stored-X-not-input-sliced-at-selection"
    ELSE IF p.hasy /\ Len(p.ysel) # p.nsel THEN "stored-y-has-wrong-length"
    ELSE IF p.hasy /\ \E i \in 1..p.nsel : sel[i] \notin RangeOf(p.ysel[i]) THEN "stored-y-not-targets-sliced-at-selection"
    ELSE IF Len(p.support) # N THEN "support-mask-has-wrong-length"
    ELSE IF {j \in 1..N : p.support[j]} # RangeOf(sel) THEN "support-mask-differs-from-selection"
    \* views not observed by the recorder (source-hook traces) are marked by p.views = FALSE
    ELSE IF p.views /\ p.sorted # SortSet(RangeOf(sel)) THEN "get_support(indices)-not-sorted-selection"
    ELSE IF p.views /\ p.ordered # sel THEN "get_support(ordered)-not-selection-order"
    ELSE IF p.hastr /\ Len(p.tcols) # p.nsel THEN "transform-has-wrong-width"
    ELSE IF p.hastr /\ \E i \in 1..p.nsel : SortSet(RangeOf(sel))[i] \notin RangeOf(p.tcols[i]) THEN "transform-not-masked-columns"
    ELSE "ok"

(* C08: a sequence b is an admissible re-run of a given the score tables seen    *)
(* along a: equal up to the first step whose argmax set (over unselected) is not *)
(* a singleton                                                                   *)
RECURSIVE FirstTie(_, _, _, _)
FirstTie(N, a, tables, i) ==      \* index of the first tied decision at or after i, Len(a)+1 if none
    IF i > Len(a) THEN Len(a) + 1
    ELSE IF tables[i] # <<>> /\ Cardinality(ArgMaxSet(tables[i], Unselected(N, SubSeq(a, 1, i - 1)))) > 1 THEN i
    ELSE FirstTie(N, a, tables, i + 1)
==========================================================================
