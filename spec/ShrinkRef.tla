------------------------------- MODULE ShrinkRef -------------------------------
(* Growth module: the OAS shrinkage used for SparseKDE's local covariances              *)
(* (skmatter.utils.oas), as coded, in exact rational arithmetic on integer covariances. *)
(*     phi_raw = ((1 - 2/D) q + t^2) / ((n + 1 - 2/D) q - t^2 / D),   t = trace, q = sum *)
(*     of squared diagonal entries (as coded: trace of the element-wise square);          *)
(*     phi = 1 if the denominator is <= 0, else phi_raw clipped to [0, 1];                 *)
(*     out = (1 - phi) cov + phi (t / D) I.                                                *)
(* TLC enumerates every symmetric positive semi-definite integer covariance of the box,  *)
(* dimensions 1..3 and a set of (fractional) local populations, and checks what          *)
(* property C17 needs from this step: phi is a convex weight, the trace is preserved,     *)
(* the output is positive semi-definite, and it is positive DEFINITE whenever D >= 2 and  *)
(* the trace is positive - also for singular input and tiny populations.  The table of    *)
(* exact outputs is replayed into the real function by ./check extras.                    *)
EXTENDS Integers, Sequences, FiniteSets, TLC, Json
VARIABLES cfg
Pops == {<<1, 8>>, <<1, 2>>, <<1, 1>>, <<3, 2>>, <<5, 1>>, <<40, 1>>}     \* n = num / den
Sym2 == {<<<<a, b>>, <<b, c>>>> : a \in 0..4, b \in -3..3, c \in 0..4}
Sym3 == {<<<<a, b, c>>, <<b, d, e>>, <<c, e, f>>>> : a \in 0..2, d \in 0..2, f \in 0..2, b \in -1..1, c \in -1..1, e \in -1..1}
Sym1 == {<<<<a>>>> : a \in 0..4}
Det2(M) == M[1][1] * M[2][2] - M[1][2] * M[2][1]
Det3(M) == M[1][1] * (M[2][2] * M[3][3] - M[2][3] * M[3][2]) - M[1][2] * (M[2][1] * M[3][3] - M[2][3] * M[3][1])
           + M[1][3] * (M[2][1] * M[3][2] - M[2][2] * M[3][1])
Minor(M, i, j) == <<<<M[i][i], M[i][j]>>, <<M[j][i], M[j][j]>>>>
PSD(M) == LET d == Len(M) IN
          /\ \A i \in 1..d : M[i][i] >= 0
          /\ d >= 2 => \A i \in 1..d, j \in 1..d : i < j => Det2(Minor(M, i, j)) >= 0
          /\ d = 3 => Det3(M) >= 0
PD(M) == LET d == Len(M) IN
         /\ M[1][1] > 0
         /\ d >= 2 => Det2(Minor(M, 1, 2)) > 0
         /\ d = 3 => Det3(M) > 0
Init == cfg \in ({M \in Sym1 \cup Sym2 : PSD(M)} \X Pops) \cup ({M \in Sym3 : PSD(M)} \X {<<1, 2>>, <<1, 1>>, <<5, 1>>})
Next == UNCHANGED cfg
Spec == Init /\ [][Next]_cfg
Cov == cfg[1]
D == Len(Cov)
nn == cfg[2][1]
nd == cfg[2][2]
RECURSIVE SumDiag(_, _, _)
SumDiag(M, k, sq) == IF k = 0 THEN 0 ELSE (IF sq THEN M[k][k] * M[k][k] ELSE M[k][k]) + SumDiag(M, k - 1, sq)
T == SumDiag(Cov, D, FALSE)
Q == SumDiag(Cov, D, TRUE)
\* phi_raw = RawN / RawD with RawD's sign that of the coded denominator
RawN == ((D - 2) * Q + D * T * T) * nd
RawD == (nn * D + nd * D - 2 * nd) * Q - nd * T * T
RECURSIVE GCD(_, _)
GCD(a, b) == IF b = 0 THEN (IF a < 0 THEN -a ELSE a) ELSE GCD(b, a % b)
Red(p) == LET g == GCD(p[1], p[2]) IN IF g = 0 THEN p ELSE <<p[1] \div g, p[2] \div g>>
PhiRaw == IF RawD <= 0 THEN <<1, 1>> ELSE IF RawN <= 0 THEN <<0, 1>> ELSE IF RawN >= RawD THEN <<1, 1>> ELSE <<RawN, RawD>>
Phi == Red(PhiRaw)
\* output entries over the common denominator D * Phi[2]
OutNum == [i \in 1..D |-> [j \in 1..D |-> D * (Phi[2] - Phi[1]) * Cov[i][j] + (IF i = j THEN Phi[1] * T ELSE 0)]]
OutDen == D * Phi[2]
ConvexWeight == Phi[1] >= 0 /\ Phi[1] <= Phi[2] /\ Phi[2] > 0
TracePreserved == SumDiag(OutNum, D, FALSE) = T * OutDen
OutPSD == PSD(OutNum)
OutPD == (D >= 2 /\ T > 0) => PD(OutNum)
OneDimUnchanged == D = 1 => OutNum[1][1] = Cov[1][1] * OutDen
\* effective dimension (exp of the spectral entropy): decided exactly where the spectrum is evident
Iso == T > 0 /\ \A i \in 1..D, j \in 1..D : Cov[i][j] = (IF i = j THEN Cov[1][1] ELSE 0)
RankOne == D = 2 /\ T > 0 /\ Det2(Cov) = 0
EffDim == IF Iso THEN D ELSE IF RankOne THEN 1 ELSE 0          \* 0: only the bounds 1 <= effdim <= D apply
Emit == PrintT(ToJson([k |-> "E", cov |-> Cov, n |-> cfg[2], phi |-> Phi, num |-> OutNum, den |-> OutDen, effdim |-> EffDim, tr |-> T]))
===============================================================================
