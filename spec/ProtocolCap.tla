------------------------------ MODULE ProtocolCap ------------------------------
(* Growth module: an OPTIONAL capability that is prepared at fit time.  KernelPCovR can    *)
(* map latent coordinates back to feature space only if the fit was asked to prepare the   *)
(* reconstruction matrix (fit_inverse_transform=True); the flag is a hyper-parameter and    *)
(* may be switched between two fits of one object.  State: the data set the estimator is   *)
(* fitted on ("none" = unfitted) and whether THAT fit prepared the capability.              *)
(*    Fit(d, c)   -> "ok",  st := d, cap := c                                               *)
(*    Back        -> inverse_transform of latent coordinates: "ok" with as many columns as  *)
(*                   data set st has features iff st # "none" /\ cap, otherwise "rejected"   *)
(*    Clone / Reload as in module Protocol                                                  *)
(* The point of the module is the second conjunct: a capability prepared by an EARLIER fit  *)
(* must not survive a fit that did not ask for it (the pinned snapshot answered such a call *)
(* with reconstructions of the earlier training set; repaired by /repo commit 1fc6e58).     *)
(* StaleCap = TRUE models the pinned behaviour and violates NoStaleCapability.              *)
EXTENDS Integers, Sequences, TLC, Json
CONSTANTS MaxLen, StaleCap
VARIABLES h, st, cap, capOf, out
vars == <<h, st, cap, capOf, out>>
Data == {"A", "B"}
Init == h = <<>> /\ st = "none" /\ cap = FALSE /\ capOf = "none" /\ out = <<>>
\* capOf: the data set whose reconstruction matrix the object currently holds
Fit(d, c) == /\ h' = Append(h, <<"fit", d, c>>) /\ st' = d /\ out' = Append(out, "ok")
             /\ cap' = (c \/ (StaleCap /\ cap))
             /\ capOf' = IF c THEN d ELSE IF StaleCap THEN capOf ELSE "none"
Back == /\ h' = Append(h, <<"back", "-", FALSE>>) /\ UNCHANGED <<st, cap, capOf>>
        /\ out' = Append(out, IF st # "none" /\ cap THEN "ok" ELSE "rejected")
Clone == /\ h' = Append(h, <<"clone", "-", FALSE>>) /\ st' = "none" /\ cap' = FALSE /\ capOf' = "none" /\ out' = Append(out, "ok")
Reload == /\ h' = Append(h, <<"reload", "-", FALSE>>) /\ UNCHANGED <<st, cap, capOf>> /\ out' = Append(out, "ok")
Next == Len(h) < MaxLen /\ ((\E d \in Data, c \in BOOLEAN : Fit(d, c)) \/ Back \/ (Len(h) > 0 /\ (Clone \/ Reload)))
Spec == Init /\ [][Next]_vars
\* whatever answers a Back call was prepared by the fit the estimator is in
NoStaleCapability == cap => capOf = st
Emit == (Len(h) > 0 /\ h[Len(h)][1] = "back") =>
            PrintT(ToJson([k |-> "H", fitted |-> st, hist |-> [i \in 1..Len(h) |-> [op |-> h[i][1], d |-> h[i][2], c |-> h[i][3], out |-> out[i]]]]))
================================================================================
