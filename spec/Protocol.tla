-------------------------------- MODULE Protocol --------------------------------
(* Growth module: the fit / use protocol shared by all estimators of the library.        *)
(* An estimator is either unfitted or fitted on data with mf features (and, for kernel    *)
(* transformers, nf training samples).  Calls:                                            *)
(*    Fit(d)        d in {"A", "B"}: data sets with different numbers of samples/features  *)
(*    Clone / Reload  sklearn.base.clone (unfitted copy) / pickle round trip (same state)       *)
(*    Use(d)        a use call (transform / predict / score_samples / ...) on new data      *)
(*                  whose width is that of data set d                                       *)
(* Expected outcome of every call in every history of length <= MaxLen:                    *)
(*    Fit          -> "ok", state := d                                                      *)
(*    Use unfitted -> "rejected"  (no value may be returned)                                *)
(*    Use(d), d # fitted data -> "rejected" (width mismatch), state unchanged               *)
(*    Use(d), d = fitted data -> "ok" with the output shape given by the catalogue          *)
(* and a rejected call leaves the estimator usable: a later matching Use is "ok".          *)
(* TLC enumerates the histories with the expected outcomes; ./check extras replays them    *)
(* into every class of the catalogue and every use method the class offers.                *)
EXTENDS Integers, Sequences, TLC, Json
CONSTANTS MaxLen
VARIABLES h, st, out
vars == <<h, st, out>>
Data == {"A", "B"}
Init == h = <<>> /\ st = "none" /\ out = <<>>
Fit(d) == /\ h' = Append(h, <<"fit", d>>) /\ st' = d /\ out' = Append(out, "ok")
Use(d) == /\ h' = Append(h, <<"use", d>>) /\ st' = st
          /\ out' = Append(out, IF st = "none" THEN "rejected" ELSE IF st # d THEN "rejected" ELSE "ok")
\* the two standard ways of copying an estimator: sklearn.base.clone gives an UNFITTED estimator with the same
\* hyper-parameters, a pickle round trip gives an estimator in the SAME state (the history continues on the copy)
Clone == /\ h' = Append(h, <<"clone", "-">>) /\ st' = "none" /\ out' = Append(out, "ok")
Reload == /\ h' = Append(h, <<"reload", "-">>) /\ st' = st /\ out' = Append(out, "ok")
Next == Len(h) < MaxLen /\ ((\E d \in Data : Fit(d) \/ Use(d)) \/ (Len(h) > 0 /\ (Clone \/ Reload)))
Spec == Init /\ [][Next]_vars
\* design-level facts
OnlyFittedUseSucceeds == \A i \in 1..Len(h) : (h[i][1] = "use" /\ out[i] = "ok") =>
                            \E j \in 1..i - 1 : h[j] = <<"fit", h[i][2]>> /\ \A l \in j + 1..i - 1 : h[l][1] \notin {"fit", "clone"}
Emit == (Len(h) > 0 /\ h[Len(h)][1] = "use") =>
            PrintT(ToJson([k |-> "H", hist |-> [i \in 1..Len(h) |-> [op |-> h[i][1], d |-> h[i][2], out |-> out[i]]]]))
=================================================================================
