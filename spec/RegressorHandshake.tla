-------------------------- MODULE RegressorHandshake --------------------------
(* Growth module: how PCovR / KernelPCovR take over a user-supplied regressor          *)
(* (skmatter.utils.check_lr_fit / check_krr_fit).                                       *)
(*   unfitted         -> a clone is fitted on the data; the user's object stays unfitted *)
(*   fitted, matching -> a copy is used as it is (same coefficients); the user's object  *)
(*                       is neither refitted nor aliased                                 *)
(*   fitted on another number of features, or with coefficients whose dimension / number *)
(*   of targets differs from the supplied y -> rejected                                  *)
(* State of a regressor: <<fitted, mfit, ynd, pfit>>; the data: m features, y of          *)
(* dimension ynd (1 or 2) with p targets.  coefficient dimension = ynd at fit time.       *)
EXTENDS Integers, Sequences, TLC, Json
VARIABLES cfg
Kinds == {"lr", "ridge", "krr"}
RegStates == {<<FALSE, 0, 0, 0>>} \cup {<<TRUE, mf, nd, pf>> : mf \in {3, 4}, nd \in {1, 2}, pf \in {1, 2}}
Data == {<<3, 1, 1>>, <<3, 2, 1>>, <<3, 2, 2>>}
WellFormed(r) == r[1] => (r[3] = 1 => r[4] = 1)
Init == cfg \in Kinds \X {r \in RegStates : WellFormed(r)} \X Data
Next == UNCHANGED cfg
Spec == Init /\ [][Next]_cfg
reg == cfg[2]
dat == cfg[3]
Outcome == IF ~reg[1] THEN "fit-clone"
           ELSE IF reg[2] # dat[1] THEN "reject"
           ELSE IF reg[3] # dat[2] THEN "reject"
           ELSE IF dat[2] = 2 /\ reg[4] # dat[3] THEN "reject"
           ELSE "reuse-copy"
Emit == PrintT(ToJson([k |-> "E", kind |-> cfg[1], fitted |-> reg[1], mfit |-> reg[2], yndfit |-> reg[3], pfit |-> reg[4],
                       m |-> dat[1], ynd |-> dat[2], p |-> dat[3], outcome |-> Outcome]))
===============================================================================
