"""Drivers and recorders for the greedy selector family (C01, C02, C06, C08).

Runs the real selector classes on lattice inputs and projects what they do to integer
traces.  Nothing here computes an expected value: it records calls, score tables read
through the public `score` method, and public fitted attributes.
"""

import warnings

import numpy as np

INF = 2000000000

import skmatter.feature_selection as F
import skmatter.sample_selection as S

# name -> (class, axis, family, needs_y)
CLASSES = {
    "fFPS": (F.FPS, 1, "fps", False),
    "sFPS": (S.FPS, 0, "fps", False),
    "fPCovFPS": (F.PCovFPS, 1, "fps", True),
    "sPCovFPS": (S.PCovFPS, 0, "fps", True),
    "fCUR": (F.CUR, 1, "cur", False),
    "sCUR": (S.CUR, 0, "cur", False),
    "fPCovCUR": (F.PCovCUR, 1, "cur", True),
    "sPCovCUR": (S.PCovCUR, 0, "cur", True),
    "VoronoiFPS": (S.VoronoiFPS, 0, "fps", False),
}


def lattice(rng, n, m, r, kind):
    """Integer matrices of several kinds (full rank, rank deficient, duplicates, clustered,
    collinear, badly scaled by per-column powers of two)."""
    X = rng.integers(-r, r + 1, size=(n, m))
    if kind == "dupcols" and m >= 3:
        k = int(rng.integers(1, m // 2 + 1))
        src = rng.integers(0, m, size=k)
        dst = rng.choice(m, size=k, replace=False)
        X[:, dst] = X[:, src]
    elif kind == "duprows" and n >= 3:
        k = int(rng.integers(1, n // 2 + 1))
        src = rng.integers(0, n, size=k)
        dst = rng.choice(n, size=k, replace=False)
        X[dst] = X[src]
    elif kind == "lowrank":
        k = int(rng.integers(1, max(2, min(n, m) - 1)))
        A = rng.integers(-2, 3, size=(n, k))
        B = rng.integers(-2, 3, size=(k, m))
        X = A @ B
    elif kind == "clustered":
        c = rng.integers(-r, r + 1, size=(3, m)) * 4
        X = c[rng.integers(0, 3, size=n)] + rng.integers(-1, 2, size=(n, m))
    elif kind == "scaled":
        X = X * (2 ** rng.integers(0, 4, size=m))
    elif kind == "ties":
        X = rng.integers(0, 2, size=(n, m)) * r
    elif kind == "onehot":
        X = np.zeros((n, m), dtype=np.int64)
        X[np.arange(n), rng.integers(0, m, size=n)] = rng.integers(1, r + 1, size=n)
    elif kind == "zeroitem":
        X[int(rng.integers(n))] = 0          # one sample ...
        X[:, int(rng.integers(m))] = 0       # ... and one feature without any content
    if not np.any(X):
        X[0, 0] = 1
    return X.astype(np.int64)


KINDS = ["full", "full", "dupcols", "duprows", "lowrank", "clustered", "scaled", "ties", "onehot", "zeroitem"]


def q(v, unit):
    """Quantise a float table to integer lattice units; +inf -> INF sentinel."""
    out = []
    for x in np.asarray(v, float).ravel():
        if not np.isfinite(x):
            out.append(INF if x > 0 else -INF)
        else:
            out.append(int(min(max(round(x * unit), -INF), INF)))
    return out


def snap_exact(v, unit, what):
    """Values that must be exact integers in lattice units (FPS tables on lattices)."""
    a = np.asarray(v, float).ravel() * unit
    out = []
    for x in a:
        if not np.isfinite(x):
            out.append(INF)
            continue
        r = round(x)
        if abs(x - r) > 1e-6 * (1 + abs(x)):
            out.append(-7777777)   # off-lattice marker, rejected by the spec
        else:
            out.append(int(r))
    return out


def matching_items(block, ref, axis):
    """For each stored column/row of `block`, the list of input items equal to it."""
    out = []
    nb = block.shape[axis]
    for i in range(nb):
        col = np.take(block, i, axis=axis)
        eq = [j + 1 for j in range(ref.shape[axis]) if np.array_equal(col, np.take(ref, j, axis=axis))]
        out.append(eq)
    return out


def nts_form(nts, N=None):
    if nts is None:
        return ["none"]
    if isinstance(nts, (int, np.integer)):
        return ["int", int(nts)]
    p = int(round(nts * 8))
    if p / 8 == nts:
        return ["frac", p, 8]
    # any other fraction (0.58, 3/11, ...): the double the caller passes, as an exact rational rounded DOWN to a multiple of
    # 1/(1000 N) - the count floor(N p / q) it implies is that of the exact value (floor(floor(1000 N f) / 1000) = floor(N f))
    from fractions import Fraction
    import math
    q = 1000 * int(N)
    return ["frac", int(math.floor(Fraction(float(nts)) * q)), q]


def thr_form(thr, thr_type, unit):
    """threshold given as a rational (num, den) in raw score units -> spec form in lattice units"""
    if thr is None:
        return ["none"]
    num, den = thr
    if thr_type == "absolute":
        return ["abs", num * unit, den]
    return ["rel", num, den]


class Recorder:
    """Wraps one selector object; records each fit as begin / step* / post|raised."""

    def __init__(self, obj, name, X, y, unit, exact, fps=False):
        self.obj, self.name, self.X, self.y = obj, name, X, y
        self.fps = fps
        self.axis = CLASSES[name][1]
        self.unit, self.exact = unit, exact
        self.events = []
        self.calls = []
        self.layer = "score-wrapper"
        try:
            orig = obj.score
            rec = self

            def wrapped(X_, y_=None, _orig=orig):
                s = _orig(X_, y_)
                nsel = int(getattr(rec.obj, "n_selected_", 0))
                idx = [int(i) + 1 for i in np.asarray(getattr(rec.obj, "selected_idx_", []))[:nsel]]
                rec.calls.append((np.array(s, float).copy(), nsel, idx))
                return s

            obj.score = wrapped
        except Exception:
            self.layer = "public-only"

    def fit(self, nts, warm=False, thr=None, thr_type="absolute", with_y=True, init=None, X=None, y=None):
        obj = self.obj
        X = self.X if X is None else X
        y = self.y if y is None else y
        # numbers are handed over as numpy scalars now and then (np.int64 / np.float64 are what array code produces)
        self.nfit = getattr(self, "nfit", 0) + 1
        if nts is not None and (self.nfit + int(X.shape[0])) % 3 == 0:
            nts_arg = np.int64(nts) if isinstance(nts, (int, np.integer)) else np.float64(nts)
        else:
            nts_arg = nts
        obj.n_to_select = nts_arg
        obj.score_threshold = None if thr is None else thr[0] / thr[1]
        obj.score_threshold_type = thr_type
        self.calls = []
        N = X.shape[self.axis]
        ev = {"a": "begin", "nts": nts_form(nts, N), "thr": thr_form(thr, thr_type, self.unit), "warm": bool(warm),
              "init": [int(i) + 1 for i in (init or [])], "raised": False, "msg": ""}
        raised = None
        with warnings.catch_warnings():
            warnings.simplefilter("ignore")
            try:
                if with_y and y is not None:
                    obj.fit(X, y, warm_start=warm)
                else:
                    obj.fit(X, warm_start=warm)
            except Exception as e:  # noqa
                raised = e
        if raised is not None and not self.calls:
            ev["raised"] = True
            ev["msg"] = "%s: %s" % (type(raised).__name__, str(raised)[:120])
            self.events.append(ev)
            return False
        self.events.append(ev)
        # steps: choice made at call t = item added between call t and call t+1 (or the end)
        nsel_end = int(getattr(obj, "n_selected_", 0))
        idx_end = [int(i) + 1 for i in np.asarray(getattr(obj, "selected_idx_", []))]
        snaps = [(c[1], c[2]) for c in self.calls] + [(nsel_end, None)]
        stopped = False
        for t, (s, nsel, idx) in enumerate(self.calls):
            nn, nidx = snaps[t + 1]
            if nn == nsel and raised is not None and t == len(self.calls) - 1:
                break      # the decision was not completed: the fit raised (reported by the next event)
            if nn == nsel:
                c = 0
                stopped = True
            elif nn == nsel + 1:
                if nidx is not None:
                    c = nidx[nsel]
                else:
                    # final state: read from the stored data if the index vector is short
                    c = idx_end[nsel] if len(idx_end) > nsel else self._from_store(nsel)
            else:
                c = -1
            table = snap_exact(s, self.unit, "score") if self.exact else q(s, self.unit)
            self.events.append({"a": "step", "c": int(c), "score": table})
        if raised is not None:
            self.events.append({"a": "raised", "nts": nts_form(nts, X.shape[self.axis])[0], "msg": "%s: %s" % (type(raised).__name__, str(raised)[:120])})
            return False
        ev = {"a": "post", "p": self.project(X, y if with_y else None), "warm": bool(warm)}
        if self.fps:
            ev.update(fps_tables(self.obj, self.unit))
        self.events.append(ev)
        return True

    def _from_store(self, pos):
        try:
            blk = np.take(self.obj.X_selected_, pos, axis=self.axis)
            for j in range(self.X.shape[self.axis]):
                if np.array_equal(blk, np.take(self.X, j, axis=self.axis)):
                    return j + 1
        except Exception:
            pass
        return -1

    def project(self, X, y):
        o = self.obj
        Xf = np.asarray(X, float)
        p = {"nsel": int(o.n_selected_), "idx": [int(i) + 1 for i in o.selected_idx_],
             "xsel": matching_items(np.asarray(o.X_selected_), Xf, self.axis),
             "support": [bool(b) for b in o.get_support()],
             "sorted": [int(i) + 1 for i in o.get_support(indices=True)],
             "ordered": [int(i) + 1 for i in o.get_support(indices=True, ordered=True)],
             "hasy": False, "ysel": [], "hastr": False, "tcols": [], "views": True}
        if self.axis == 0 and y is not None and hasattr(o, "y_selected_"):
            yy = np.asarray(y, float).reshape(len(y), -1)
            p["hasy"] = True
            p["ysel"] = matching_items(np.asarray(o.y_selected_).reshape(-1, yy.shape[1]), yy, 0)
        if self.axis == 1:
            try:
                T = o.transform(Xf)
                p["hastr"] = True
                p["tcols"] = matching_items(T, Xf, 1)
            except Exception:
                p["hastr"] = True
                p["tcols"] = [[-1]]
        return p


def fps_tables(obj, unit):
    """Public distance views of an FPS-type selector in lattice units."""
    out = {}
    with warnings.catch_warnings():
        warnings.simplefilter("ignore")
        try:
            out["table"] = snap_exact(obj.get_distance(), unit, "get_distance")
        except Exception:
            out["table"] = []
        try:
            out["hsel"] = snap_exact(obj.get_select_distance(), unit, "get_select_distance")
        except Exception:
            out["hsel"] = []
    return out
