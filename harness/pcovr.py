"""Recorder for PCovR fits (C03, C04, C14): runs the real class on centred lattice data and
projects inputs, configuration and outputs to fixed point (S = 2^14).  Witnesses (PCA scores,
orthonormal bases of competitor subspaces) are computed with numpy and verified by the spec."""
import warnings

import numpy as np

from harness import core

S = 16384


def fq(a):
    a = np.asarray(a, float)
    a = np.where(np.isfinite(a), a, 1e5)
    return np.rint(np.clip(a, -1.3e5, 1.3e5) * S).astype(int).tolist()


def centred_lattice(rng, n, m, r=4, kind="full"):
    """integer matrix (units of 1/4) with columns summing to zero"""
    while True:
        A = rng.integers(-r, r + 1, size=(n, m))
        if kind == "lowrank" and m >= 3:
            A[:, -1] = A[:, 0] - A[:, 1]
        A[-1] = -A[:-1].sum(axis=0)
        if np.abs(A).max() <= 2 * r and np.any(A):
            return A


def sq(v):
    """a score in fixed point; a relative loss with a vanishing denominator (zero data handed to score) is not a number:
    logged as a value beyond every range, which the specification does not decide"""
    v = float(v)
    return int(round(v * S)) if np.isfinite(v) and abs(v) < 1e5 else 2000000000


def symmetric_centred(rng, n):
    """a SYMMETRIC integer feature matrix with zero column (and row) sums: symmetric off-diagonal entries, the diagonal
    balances every row (samples described by their similarities to each other)"""
    while True:
        A = rng.integers(-2, 3, size=(n, n))
        A = np.triu(A, 1)
        A = A + A.T
        A[np.arange(n), np.arange(n)] = -A.sum(axis=1)
        if np.abs(A).max() <= 8 and np.linalg.matrix_rank(A) >= n - 1 and np.any(A):
            return A


def regressor_for(route):
    from sklearn.linear_model import LinearRegression, Ridge
    if route == "default":
        return None
    if route == "ridge":
        return Ridge(alpha=0.5, fit_intercept=False, tol=1e-12)
    if route == "ridgeS":
        return Ridge(alpha=25.0, fit_intercept=False, tol=1e-12)        # strongly regularised: Yhat clearly differs from the LS fit
    if route == "lr":
        return LinearRegression(fit_intercept=False)
    raise ValueError(route)


def fit_record(Xi, Yi, a, k, space, solver, route, y1d=False, Xn=None, pre=None, extras=True, seed=0, xpert=None):
    """One PCovR fit -> record.  Xi, Yi integer (units 1/4); mixing a/8.
    route: default | ridge | lr | pre (precomputed Yhat given in `pre` = (Yhat, W or None))"""
    from skmatter.decomposition import PCovR
    X = Xi / 4.0
    if xpert is not None:
        X = X + xpert          # exact dyadic perturbation far below the fixed-point resolution (ill-conditioned, not rank-deficient)
    Y = Yi / 4.0
    Yarg = Y[:, 0] if y1d else Y
    kw = dict(mixing=a / 8.0, n_components=k, space=space, svd_solver=solver, tol=1e-12, random_state=seed)
    rec = {"a": int(a), "k": int(k), "space": space, "solver": solver, "route": route, "y1d": bool(y1d), "raised": False}
    try:
        with warnings.catch_warnings():
            warnings.simplefilter("ignore")
            if route == "pre":
                Yh, W = pre
                m_ = core.mk(PCovR, regressor="precomputed", **kw).fit(X, Yh.copy(), W=None if W is None else W.copy())
            else:
                reg_ = regressor_for(route)
                if reg_ is not None and (int(np.abs(Xi).sum()) + k) % 4 == 0:
                    # history: the caller's (unfitted) regressor object was handed to another PCovR, fitted on other data, before
                    try:
                        PCovR(mixing=0.5, n_components=1, regressor=reg_, tol=1e-12).fit(X[::-1] * 0.5 + 0.25 * X, Yarg[::-1] * 1.0)
                    except Exception:
                        pass
                m_ = core.mk(PCovR, regressor=reg_, **kw).fit(X, Yarg)
                Yh = m_.regressor_.predict(X).reshape(len(X), -1)
            T = m_.transform(X)
            Yp = m_.predict(X)
            YpT = m_.predict(T=T)
            Xr = m_.inverse_transform(T)
            T2 = m_.transform(Xr)
            rec.update({"Yh": fq(Yh), "T": fq(T), "Yp": fq(np.reshape(Yp, (len(X), -1))), "YpT": fq(np.reshape(YpT, (len(X), -1))),
                        "Xr": fq(Xr), "T2": fq(T2), "lam": fq(m_.singular_values_ ** 2), "ev": fq(m_.explained_variance_),
                        "pxt": fq(m_.pxt_), "pty": fq(np.reshape(m_.pty_, (k, -1))), "ptx": fq(m_.ptx_),
                        "pxy": fq(np.reshape(m_.pxy_, (X.shape[1], -1))),
                        "pred_ndim": int(np.ndim(Yp)), "pxy_ndim": int(np.ndim(m_.pxy_)), "pty_ndim": int(np.ndim(m_.pty_)),
                        "score": sq(m_.score(X, Yarg)) if route != "pre" else 0,
                        "Xn": [], "Tn": [], "Ypn": [], "YpTn": [], "Yn": [], "Xrn": [], "scoren": 0, "lamfull": [], "cmpY": True,
                        "comp": [], "That": [], "pcaV": [], "lrW": [], "kform": []})
            # the documented third argument of score: latent coordinates supplied by the caller (here: the last component
            # switched off); the losses are then those of exactly these coordinates
            rec.update({"XrS": [], "YpS": [], "scoreS": 0})
            if route != "pre" and k >= 2:
                Ts = T.copy(); Ts[:, -1] = 0.0
                rec.update({"XrS": fq(m_.inverse_transform(Ts)), "YpS": fq(np.reshape(m_.predict(T=Ts), (len(X), -1))),
                            "scoreS": sq(m_.score(X, Yarg, T=Ts))})
            if Xn is not None:
                Xnf = Xn / 4.0
                Tn = m_.transform(Xnf)
                rec.update({"Xn": Xn.astype(int).tolist(), "Tn": fq(Tn), "Ypn": fq(np.reshape(m_.predict(Xnf), (len(Xnf), -1))),
                            "YpTn": fq(np.reshape(m_.predict(T=Tn), (len(Xnf), -1)))})
                if route != "pre":
                    # score on data the model was not fitted on (targets of the new rows: a fixed linear map of them)
                    Ynf = (Xnf[:, :1] - Xnf[:, 1:2] * 0.5) @ np.ones((1, Y.shape[1])) + 0.25
                    Ynarg = Ynf[:, 0] if y1d else Ynf
                    rec.update({"Yn": fq(Ynf), "Xrn": fq(m_.inverse_transform(Tn)), "scoren": sq(m_.score(Xnf, Ynarg))})
            rec["_Yh"] = Yh
            rec["_W"] = m_.regressor_.coef_.T.reshape(X.shape[1], -1) if route != "pre" else None
            # size of the weights of the (sklearn) regressor: an ill-posed regression (exactly singular X with an unregularised
            # regressor gives weights of 1e13 and regressed targets with 1e-3 noise) is an input condition, decided by the spec
            rec["wmax"] = 0 if rec["_W"] is None else int(min(np.abs(rec["_W"]).max(), 1e9))
            rec["_T"] = T
            rec["_lam"] = m_.singular_values_ ** 2
    except Exception as e:  # noqa
        rec["raised"] = True
        rec["msg"] = "%s: %s" % (type(e).__name__, str(e)[:120])
    return rec


def public(rec):
    return {k: v for k, v in rec.items() if not k.startswith("_") and k not in ("msg", "kform_msg")}
