"""Shared machinery: TLC runner, batch trace validation, verdict parsing, evidence, findings.

The only component that ever decides held / violated is TLC evaluating a TLA+ module of
/verif/spec.  This file moves data: it writes case batches as JSON, starts TLC, parses
the verdict strings TLC printed, filters them through known_findings.json and writes
evidence.
"""

import concurrent.futures as cf
import json
import os
import re
import shutil
import subprocess
import sys
import tempfile
import time

VERIF = os.path.dirname(os.path.dirname(os.path.abspath(__file__)))
SPEC = os.path.join(VERIF, "spec")
OUT = os.path.join(VERIF, "out")
# evidence of the registered commands goes to /verif/evidence; runs against a scratch copy of the sources (SKMATTER_SRC:
# mutation testing of the checks themselves) must not overwrite it
EVID = os.path.join(VERIF, "evidence") if not os.environ.get("SKMATTER_SRC") else os.path.join(VERIF, "out", "evidence-scratch")
JAR = "/opt/veriftools/tla/tla2tools.jar:/opt/veriftools/tla/CommunityModules-deps.jar"
NCPU = os.cpu_count() or 4


class Machinery(Exception):
    """Something in the checking machinery failed (exit 2): never a pass, never a violation."""


def seed():
    try:
        return int(os.environ.get("VERIF_SEED", "0"))
    except ValueError:
        return 0


def tier(argv_tier=None):
    t = argv_tier or os.environ.get("VERIF_TIER") or "quick"
    return "thorough" if t.startswith("t") else "quick"


_scratch = None


def scratch():
    global _scratch
    if _scratch is None:
        base = os.environ.get("VERIF_SCRATCH_BASE", tempfile.gettempdir())
        _scratch = tempfile.mkdtemp(prefix="skmverif-", dir=base)
    return _scratch


def cleanup():
    global _scratch
    if _scratch and os.path.isdir(_scratch):
        shutil.rmtree(_scratch, ignore_errors=True)
    _scratch = None


_STATS = re.compile(r"(\d+) states generated, (\d+) distinct states found")
_COV = re.compile(r"^<(\w+) line (\d+), col \d+ to line \d+, col \d+ of module (\w+)(?: \([\d ]+\))?>: (\d+):(\d+)")


def run_tlc(module, cfg=None, env=None, workers=1, timeout=3600, simulate=None, depth=None,
            coverage=False, extra=(), heap=None, cwd=None, deadlock=False, budget_ok=False):
    """Run TLC on spec/<module>.tla (paths relative to SPEC).  Returns a dict with stdout,
    printed JSON records (strings that TLC printed through PrintT(ToJson(..)))), state
    counts, coverage and the error class ('' = none)."""
    mod_path = os.path.join(SPEC, module)
    d = cwd or os.path.dirname(mod_path)
    meta = tempfile.mkdtemp(prefix="meta-", dir=scratch())
    cmd = ["java", "-XX:+UseParallelGC"]
    if heap:
        cmd.append("-Xmx" + heap)
    # lib directory is shared by every module
    cmd += ["-DTLA-Library=" + os.path.join(SPEC, "lib") + os.pathsep + SPEC,
            "-cp", JAR, "tlc2.TLC", "-workers", str(workers), "-metadir", meta,
            "-noGenerateSpecTE"]
    if cfg:
        cmd += ["-config", cfg if os.path.isabs(cfg) else os.path.join(SPEC, cfg)]
    if simulate:
        cmd += ["-simulate", simulate]
    if depth:
        cmd += ["-depth", str(depth)]
    if coverage:
        cmd += ["-coverage", "1"]
    if deadlock:
        cmd += ["-deadlock"]
    cmd += list(extra) + [mod_path]
    e = dict(os.environ)
    e.update(env or {})
    t0 = time.time()
    try:
        p = subprocess.run(cmd, cwd=d, env=e, stdout=subprocess.PIPE, stderr=subprocess.STDOUT,
                           timeout=timeout, text=True, errors="replace")
        out, rc, timed_out = p.stdout, p.returncode, False
    except subprocess.TimeoutExpired as ex:
        out = ex.stdout if isinstance(ex.stdout, str) else (ex.stdout or b"").decode(errors="replace")
        rc, timed_out = -9, True
    finally:
        shutil.rmtree(meta, ignore_errors=True)
    res = {"stdout": out, "rc": rc, "timed_out": timed_out, "wall_s": time.time() - t0,
           "records": [], "generated": 0, "distinct": 0, "coverage": {}, "error": ""}
    for line in out.splitlines():
        s = line.strip()
        if s.startswith('"{') or s.startswith('"['):
            try:
                res["records"].append(json.loads(json.loads(s)))
            except Exception:
                res["error"] = res["error"] or "unparsable-record"
        m = _STATS.search(s)
        if m:
            res["generated"], res["distinct"] = int(m.group(1)), int(m.group(2))
        m = _COV.match(s)
        if m:
            res["coverage"][m.group(1)] = res["coverage"].get(m.group(1), 0) + int(m.group(5))
    m2 = re.findall(r"Progress: (\d+) states checked, (\d+) traces generated", out)
    if m2:
        res["sim_states"], res["sim_traces"] = int(m2[-1][0]), int(m2[-1][1])
    m3 = re.search(r"The number of states generated: (\d+)", out)
    if m3:
        res["sim_states"] = int(m3.group(1))
    if timed_out and budget_ok and "is violated" not in out and "Error:" not in out:
        res["error"] = ""            # simulation under a time budget: running out of time is the normal end
    elif timed_out:
        res["error"] = "timeout"
    elif "Invariant" in out and "is violated" in out:
        res["error"] = "invariant-violated"
        m = re.search(r"Invariant (\w+) is violated", out)
        res["violated"] = m.group(1) if m else "?"
    elif "Action property" in out and "is violated" in out:
        res["error"] = "invariant-violated"
        m = re.search(r"Action property (\w+) is violated", out)
        res["violated"] = m.group(1) if m else "?"
    elif "is violated" in out:
        res["error"] = "invariant-violated"
        res["violated"] = "?"
    elif rc != 0 or "Error:" in out:
        res["error"] = res["error"] or "tlc-error"
    return res


def tlc_error_excerpt(res, n=25):
    lines = res["stdout"].splitlines()
    idx = [i for i, l in enumerate(lines) if "Error" in l or "violated" in l or "Overflow" in l]
    lines = [l[:300] for l in lines]
    if not idx:
        return "\n".join(lines[-n:])
    return "\n".join(lines[idx[0]: idx[0] + n])


def counterexample(res):
    """Text of the TLC counterexample trace, if any."""
    lines = res["stdout"].splitlines()
    keep = []
    on = False
    for l in lines:
        if l.startswith("Error:"):
            on = True
        if on:
            keep.append(l)
        if "states generated" in l:
            break
    return "\n".join(keep[:400])


def model_check(module, cfg, workers=NCPU, timeout=3600, coverage=True, heap="8g", env=None):
    res = run_tlc(module, cfg=cfg, workers=workers, timeout=timeout, coverage=coverage, heap=heap, env=env)
    return res


def validate_cases(module, cases, cfg=None, chunks=None, timeout=3600, key="id", env=None, heap="3g"):
    """Validate a batch of recorded cases/traces with the trace spec `module`.
    Every case must carry a unique string id under `key`.  Returns (verdicts, stats) where
    verdicts maps id -> record printed by the spec ({"id":..,"v":[...],...}).
    A case for which the spec printed nothing is a machinery failure."""
    if not cases:
        return {}, {"generated": 0, "distinct": 0, "wall_s": 0.0, "chunks": 0}
    ids = [c[key] for c in cases]
    if len(set(ids)) != len(ids):
        raise Machinery("duplicate case ids in batch for " + module)
    n = chunks or max(1, min(NCPU, len(cases) // 8 or 1))
    parts = [cases[i::n] for i in range(n)]
    parts = [p for p in parts if p]
    d = tempfile.mkdtemp(prefix="cases-", dir=scratch())
    files = []
    for i, p in enumerate(parts):
        f = os.path.join(d, "cases%d.json" % i)
        with open(f, "w") as fh:
            json.dump(p, fh)
        files.append(f)
    cfg = cfg or (os.path.splitext(module)[0] + ".cfg")

    def one(f):
        e = dict(env or {})
        e["TRACE_FILE"] = f
        return run_tlc(module, cfg=cfg, env=e, workers=1, timeout=timeout, heap=heap)

    verdicts, gen, dist = {}, 0, 0
    t0 = time.time()
    with cf.ThreadPoolExecutor(max_workers=len(files)) as ex:
        results = list(ex.map(one, files))
    for f, r in zip(files, results):
        if r["error"] == "tlc-error" and _shape_error(r):
            # The specification could not even be EVALUATED on some record of this chunk because a recorded output does not
            # have the shape the specification indexes (a sequence too short, a missing component).  The chunk is bisected
            # and exactly those records are rejected ("output-not-of-the-documented-shape"); every other record is decided as
            # usual.  Any other TLC error (parse error, overflow, timeout) stays a machinery failure.
            with open(f) as fh:
                part = json.load(fh)
            ok_recs, bad = _isolate(module, cfg, part, d, env, timeout, heap)
            gen += len(part); dist += len(part)
            for rec in ok_recs:
                verdicts[rec["id"]] = rec
            for cid, msg in bad:
                verdicts[cid] = {"k": "V", "id": cid, "v": ["rejected", "output-not-of-the-documented-shape"], "ctx": {"tlc": msg[:200]}}
            continue
        if r["error"]:
            raise Machinery("TLC failed on %s (%s):\n%s" % (module, r["error"], tlc_error_excerpt(r)))
        gen += r["generated"]
        dist += r["distinct"]
        for rec in r["records"]:
            if isinstance(rec, dict) and rec.get("k") == "V":
                verdicts[rec["id"]] = rec
    missing = [i for i in ids if i not in verdicts]
    if missing:
        raise Machinery("%d cases without verdict from %s, e.g. %s" % (len(missing), module, missing[:3]))
    shutil.rmtree(d, ignore_errors=True)
    return verdicts, {"generated": gen, "distinct": dist, "wall_s": time.time() - t0, "chunks": len(files)}


_SHAPE_MARKERS = ("which is not in the domain of the function", "which is not in its domain", "In applying the function", "Attempted to apply function", "Attempted to access index", "Attempted to select field",
                  "Attempted to apply the operator", "out of bounds", "nonexistent field", "Attempted to compute Len", "applying to the tuple", "Attempted to select nonexistent")


def _shape_error(res):
    out = res.get("stdout", "")
    return any(m in out for m in _SHAPE_MARKERS) and "Overflow" not in out and "***Parse Error***" not in out


def _isolate(module, cfg, part, d, env, timeout, heap, depth=0):
    """Bisection of a chunk on which TLC raised a shape error: returns (verdict records of evaluable cases, [(id, message)])."""
    f = os.path.join(d, "iso-%d-%d.json" % (depth, abs(hash(tuple(c["id"] for c in part))) % 10 ** 9))
    with open(f, "w") as fh:
        json.dump(part, fh)
    e = dict(env or {})
    e["TRACE_FILE"] = f
    r = run_tlc(module, cfg=cfg, env=e, workers=1, timeout=timeout, heap=heap)
    if not r["error"]:
        return [rec for rec in r["records"] if isinstance(rec, dict) and rec.get("k") == "V"], []
    if r["error"] != "tlc-error" or not _shape_error(r):
        raise Machinery("TLC failed on %s (%s):\n%s" % (module, r["error"], tlc_error_excerpt(r)))
    if len(part) == 1:
        lines = [l for l in r["stdout"].splitlines() if any(m in l for m in _SHAPE_MARKERS)]
        return [], [(part[0]["id"], lines[0] if lines else "evaluation error")]
    h = len(part) // 2
    a, ba = _isolate(module, cfg, part[:h], d, env, timeout, heap, depth + 1)
    b, bb = _isolate(module, cfg, part[h:], d, env, timeout, heap, depth + 1)
    return a + b, ba + bb


# ---------------------------------------------------------------------------------------
# known findings


def load_findings():
    p = os.path.join(VERIF, "known_findings.json")
    if not os.path.exists(p):
        return []
    with open(p) as fh:
        return json.load(fh).get("findings", [])


def match_finding(findings, prop, clause, ctx):
    """A finding lists property, clause and a dict of context predicates (decided by the
    spec and printed in the verdict) that must all be present with the listed value."""
    for f in findings:
        if f.get("status", "open") != "open":
            continue  # fixed entries suppress nothing
        if f["property"] != prop or f["clause"] != clause:
            continue
        want = f.get("context", {})
        if all(ctx.get(k) == v for k, v in want.items()):
            return f
    return None


# ---------------------------------------------------------------------------------------
# reporting


class Report:
    def __init__(self, prop, tier_, level="model_checking"):
        self.prop, self.tier, self.level = prop, tier_, level
        self.t0 = time.time()
        self.cov = {"states": 0, "transitions": 0, "traces_validated_against_impl": 0,
                    "samples": [], "parts": {}, "clause_hits": {}, "inconclusive": 0,
                    "inconclusive_reasons": {}, "exhaustive": False}
        self.violations = []
        self.known = {}
        self.assumptions = []
        self.findings = load_findings()
        self.replay_dir = os.path.join(OUT, "replay", prop)
        os.makedirs(self.replay_dir, exist_ok=True)
        for f in os.listdir(self.replay_dir):          # replay files of earlier runs of this tier are stale
            if f.startswith(tier_ + "-"):
                os.unlink(os.path.join(self.replay_dir, f))
        self.nrep = 0

    def add_mc(self, name, res, note="", expect_error=None):
        """Record an exhaustive/simulation TLC run of a model.  A violated invariant of a
        *reference* model is a machinery problem (the design itself would be wrong)."""
        self.cov["states"] += res["distinct"]
        self.cov["transitions"] += res["generated"]
        self.cov["parts"][name] = {"distinct_states": res["distinct"], "states_generated": res["generated"],
                                   "wall_s": round(res["wall_s"], 2), "action_coverage": res["coverage"],
                                   "note": note, "result": res["error"] or "no error"}
        if res["error"] and res["error"] != expect_error:
            raise Machinery("model %s: %s\n%s" % (name, res["error"], tlc_error_excerpt(res, 40)))

    def add_trace_stats(self, name, stats, n):
        self.cov["states"] += stats["distinct"]
        self.cov["transitions"] += stats["generated"]
        self.cov["traces_validated_against_impl"] += n
        p = self.cov["parts"].setdefault(name, {"cases": 0, "distinct_states": 0, "wall_s": 0.0})
        p["cases"] += n
        p["distinct_states"] += stats["distinct"]
        p["wall_s"] = round(p["wall_s"] + stats["wall_s"], 2)

    def sample(self, obj, limit=3):
        if len(self.cov["samples"]) < limit:
            self.cov["samples"].append(obj)

    def hit(self, clause, n=1):
        self.cov["clause_hits"][clause] = self.cov["clause_hits"].get(clause, 0) + n

    def inconclusive(self, reason):
        self.cov["inconclusive"] += 1
        r = self.cov["inconclusive_reasons"]
        r[reason] = r.get(reason, 0) + 1

    def reject(self, case, clause, ctx=None, detail=None):
        """A case the spec rejected.  Known finding or violation."""
        ctx = ctx or {}
        f = match_finding(self.findings, self.prop, clause, ctx)
        if f is not None:
            k = f["id"]
            self.known[k] = self.known.get(k, 0) + 1
            return False
        self.nrep += 1
        path = os.path.join(self.replay_dir, "%s-%04d.json" % (self.tier, self.nrep))
        with open(path, "w") as fh:
            json.dump({"property": self.prop, "clause": clause, "context": ctx, "detail": detail, "case": case}, fh)
        if len(self.violations) < 50:
            self.violations.append((clause, path))
        else:
            self.violations.append((clause, path))
        return True

    def finish(self):
        wall = time.time() - self.t0
        for f in self.findings:
            if f["property"] == self.prop and f.get("status", "open") == "open":
                n = self.known.get(f["id"], 0)
                print("KNOWN-FINDING: property=%s %s [%s; %d occurrence(s) in this run]" % (self.prop, f["what"], f["id"], n))
        shown = {}
        for clause, path in self.violations:
            if shown.get(clause, 0) < 5:
                print("VIOLATION property=%s replay=%s clause=%s" % (self.prop, path, clause))
            shown[clause] = shown.get(clause, 0) + 1
        self.cov["known_finding_occurrences"] = self.known
        self.cov["violations_by_clause"] = shown
        if not self.cov["samples"]:
            self.cov["samples"].append("no case recorded")
        ev = {"property_id": self.prop, "tier": self.tier, "seed": seed(), "level": self.level,
              "coverage": self.cov, "assumptions": self.assumptions, "wall_s": round(wall, 2),
              "violations": len(self.violations)}
        os.makedirs(EVID, exist_ok=True)
        with open(os.path.join(EVID, self.prop + ".json"), "w") as fh:
            json.dump(ev, fh, indent=1, default=str)
        print("%s %s: states=%d transitions=%d traces=%d inconclusive=%d violations=%d wall=%.1fs" % (
            self.prop, self.tier, self.cov["states"], self.cov["transitions"],
            self.cov["traces_validated_against_impl"], self.cov["inconclusive"], len(self.violations), wall))
        return 1 if self.violations else 0


def judge(report, cases, verdicts, ctx_keys=("ctx",)):
    """Standard treatment of verdict records: v = ["ok"] | ["inconclusive", reason] |
    ["rejected", clause, detail...]; rec.get("ctx") is a dict of context predicates;
    rec.get("hits") a list of clause names that were exercised."""
    byid = {c["id"]: c for c in cases}
    for cid, rec in verdicts.items():
        v = rec["v"]
        for h in rec.get("hits", []) or []:
            report.hit(h)
        if v[0] == "ok":
            continue
        if v[0] == "inconclusive":
            report.inconclusive(str(v[1]) if len(v) > 1 else "?")
            continue
        if v[0] == "badwitness":
            raise Machinery("witness rejected by the spec for case %s: %s" % (cid, v))
        ctx = rec.get("ctx") or {}
        if isinstance(ctx, list):
            ctx = {}
        report.reject(byid[cid], str(v[1]), ctx, v[2:])


def main_wrapper(fn):
    """Run a check function; map exceptions to exit codes."""
    try:
        rc = fn()
    except Machinery as ex:
        print("MACHINERY-FAILURE: %s" % ex, file=sys.stderr)
        print("MACHINERY-FAILURE (exit 2): %s" % str(ex).splitlines()[0])
        rc = 2
    finally:
        cleanup()
    sys.exit(rc)


def replay_recorded(path, module, strip=lambda c: c):
    """--replay: feed the recorded case of a replay file to the trace specification again and
    print TLC's verdict (the recorded inputs, parameters and call history are in the file, so
    the case can also be re-executed by hand against a modified tree)."""
    with open(path) as fh:
        rp = json.load(fh)
    case = rp["case"]
    verdicts, _ = validate_cases(module, [strip(case)], chunks=1)
    rec = verdicts[case["id"]]
    print("replay %s: property=%s recorded clause=%s verdict now=%s ctx=%s" % (path, rp["property"], rp["clause"], rec["v"], rec.get("ctx")))
    return 0 if rec["v"][0] in ("ok", "inconclusive") else 1

# ---------------------------------------------------------------------------------------
# documented constructor defaults (from the class docstrings).  A keyword argument whose value equals the documented
# default is omitted in about half of the constructions, so that the defaults themselves are part of what is checked
# (the specifications are written in terms of the documented values).
_SEL = dict(initialize=0, n_to_select=None, score_threshold=None, score_threshold_type="absolute", progress_bar=False, full=False, random_state=0)
_CUR = dict(recompute_every=1, k=1, tolerance=1e-12, n_to_select=None, score_threshold=None, score_threshold_type="absolute", progress_bar=False, full=False, random_state=0)
DOC_DEFAULTS = {
    "FPS": _SEL, "PCovFPS": dict(_SEL, mixing=0.5), "CUR": _CUR, "PCovCUR": dict(_CUR, mixing=0.5),
    "VoronoiFPS": dict(_SEL, n_trial_calculation=4, full_fraction=None),
    "PCovR": dict(mixing=0.5, n_components=None, svd_solver="auto", tol=1e-12, space="auto", regressor=None, iterated_power="auto", random_state=None),
    "KernelPCovR": dict(mixing=0.5, n_components=None, svd_solver="auto", regressor=None, kernel="linear", gamma=None, degree=3, coef0=1, kernel_params=None,
                        center=False, fit_inverse_transform=False, tol=1e-12, n_jobs=None, iterated_power="auto", random_state=None),
    "OrthogonalRegression": dict(use_orthogonal_projector=True, linear_estimator=None),
    "Ridge2FoldCV": dict(alphas=(0.1, 1.0, 10.0), alpha_type="absolute", regularization_method="tikhonov", cv=None, scoring=None, random_state=None, shuffle=True, n_jobs=None),
    "StandardFlexibleScaler": dict(with_mean=True, with_std=True, column_wise=False, rtol=0, atol=1e-12),
    "KernelNormalizer": dict(with_center=True, with_trace=True),
    "SparseKernelCenterer": dict(with_center=True, with_trace=True, rcond=1e-12),
    "SparseKDE": dict(fspread=-1.0, fpoints=0.15, metric_params=None),
    "QuickShift": dict(scale=1.0, metric_params=None),
    "DirectionalConvexHull": dict(tolerance=1e-12, low_dim_idx=None),
}


_FORM_CALLS = 0


def reduce_kwargs(cls, kw):
    """Drop (deterministically, as a function of the arguments and VERIF_SEED) about half of the keyword arguments that
    equal the documented default of `cls`."""
    import random
    doc = DOC_DEFAULTS.get(getattr(cls, "__name__", str(cls)), {})
    # (the running number of the call enters as well: the same arguments are treated differently from call to call, in the
    # same way in every run with the same seed)
    global _FORM_CALLS
    _FORM_CALLS += 1
    r = random.Random("%s|%r|%d|%d" % (getattr(cls, "__name__", ""), sorted((k, repr(v)) for k, v in kw.items()), seed(), _FORM_CALLS))
    out = {}
    for k in kw:
        v = kw[k]
        same = k in doc and type(v) is type(doc[k]) and (v is doc[k] if doc[k] is None else v == doc[k])
        if same and r.random() < 0.5:
            continue
        out[k] = v
    return out


# documented ORDER of the leading constructor parameters: in about a third of the constructions the leading arguments are
# passed positionally (a re-ordered signature is a change of the public interface)
DOC_ORDER = {
    "OrthogonalRegression": ["use_orthogonal_projector", "linear_estimator"],
    "DirectionalConvexHull": ["low_dim_idx", "tolerance"],
    "QuickShift": ["dist_cutoff_sq", "gabriel_shell", "scale"],
    "StandardFlexibleScaler": ["with_mean", "with_std", "column_wise"],
    "KernelNormalizer": ["with_center", "with_trace"],
    "SparseKernelCenterer": ["with_center", "with_trace", "rcond"],
    "PCovR": ["mixing", "n_components"],
    "KernelPCovR": ["mixing", "n_components"],
    "SparseKDE": ["descriptors", "weights"],
    "FPS": ["initialize", "n_to_select"],
    "CUR": ["recompute_every", "k", "tolerance", "n_to_select"],
    "PCovFPS": ["mixing", "initialize", "n_to_select"],
    "PCovCUR": ["mixing", "recompute_every", "k", "tolerance", "n_to_select"],
    "Ridge2FoldCV": ["alphas", "alpha_type", "regularization_method"],
}


def mk(cls, **kw):
    import random
    kw = reduce_kwargs(cls, kw)
    order = DOC_ORDER.get(getattr(cls, "__name__", ""), [])
    pos = []
    r = random.Random("pos|%s|%r|%d|%d" % (getattr(cls, "__name__", ""), sorted((k, repr(v)) for k, v in kw.items()), seed(), _FORM_CALLS))
    if order and r.random() < 0.35:
        for name in order:
            if name in kw:
                pos.append(kw.pop(name))
            else:
                break
    return cls(*pos, **kw)

def apalache_inductive(module, timeout=1500):
    """Optional extra (never decides a verdict): IndInit => IndInv at length 0 from Init and the inductive step at length 1."""
    import shutil, subprocess, tempfile
    out = tempfile.mkdtemp(prefix="apa-", dir=scratch())
    res = []
    for init, length in (("Init", 0), ("IndInit", 1)):
        try:
            p = subprocess.run(["apalache-mc", "check", "--cinit=CInit", "--init=" + init, "--inv=IndInv", "--length=%d" % length,
                                "--out-dir=" + out, module], cwd=os.path.join(SPEC, "apalache"), timeout=timeout,
                               stdout=subprocess.PIPE, stderr=subprocess.STDOUT, text=True)
            res.append("%s/length %d: %s" % (init, length, "NoError" if "The outcome is: NoError" in p.stdout else "not discharged"))
        except Exception as e:  # noqa
            res.append("%s/length %d: not run (%s)" % (init, length, type(e).__name__))
    shutil.rmtree(out, ignore_errors=True)
    return res

# ---------------------------------------------------------------------------------------
# watchdog for calls into the implementation: a change that makes a loop run forever must end in a verdict, not in a
# check that hangs.  `timed(iterable, seconds)` arms an alarm before every item of a generator loop (worker processes,
# main thread); the TimeoutError surfaces inside the implementation call and is recorded like any other exception
# raised on a valid input.
class CallTimeout(Exception):
    pass


_TIMEOUTS_SEEN = [0]


def _on_alarm(signum, frame):
    import signal
    _TIMEOUTS_SEEN[0] += 1
    signal.alarm(5)          # further calls within the same item get a short limit of their own
    raise CallTimeout("call into the implementation did not return within the watchdog limit")


def timed(iterable, seconds=None):
    import signal
    seconds = seconds or int(os.environ.get("VERIF_CALL_TIMEOUT", "180"))
    try:
        signal.signal(signal.SIGALRM, _on_alarm)
        armed = True
    except ValueError:          # not in the main thread: no watchdog
        armed = False
    try:
        for item in iterable:
            if _TIMEOUTS_SEEN[0] >= 3:
                break             # this worker has seen enough calls that do not return: the cases recorded so far decide
            if armed:
                # once a call has timed out in this worker the remaining items get a short limit: the check must still end
                signal.alarm(seconds if _TIMEOUTS_SEEN[0] == 0 else max(5, seconds // 12))
            yield item
    finally:
        if armed:
            signal.alarm(0)

def arm(seconds=None):
    """Watchdog for one iteration of a hand-written generator loop (see `timed`); returns False when the worker should stop."""
    import signal
    if _TIMEOUTS_SEEN[0] >= 3:
        return False
    seconds = seconds or int(os.environ.get("VERIF_CALL_TIMEOUT", "180"))
    try:
        signal.signal(signal.SIGALRM, _on_alarm)
        signal.alarm(seconds if _TIMEOUTS_SEEN[0] == 0 else max(5, seconds // 12))
    except ValueError:
        pass
    return True


def disarm():
    import signal
    try:
        signal.alarm(0)
    except ValueError:
        pass
