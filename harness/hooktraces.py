"""Code -> spec on the repository's OWN tests: the selector tests are run with the guarded source hooks
enabled (SKMATTER_VERIF=1); the ndjson records they emit are grouped per selector object and converted to
TraceGreedy traces.  Every assertion-free execution of the existing suite is thereby checked step by step."""
import json
import os
import subprocess
import tempfile

from . import core

TESTS = ["tests/test_feature_simple_fps.py", "tests/test_sample_simple_fps.py", "tests/test_feature_simple_cur.py",
         "tests/test_feature_pcov_cur.py", "tests/test_feature_pcov_fps.py", "tests/test_sample_pcov_cur.py",
         "tests/test_sample_pcov_fps.py", "tests/test_voronoi_fps.py", "tests/test_greedy_selector.py"]


def record(extra_tests=()):
    fd, path = tempfile.mkstemp(prefix="hooktrace-", suffix=".ndjson", dir=core.scratch())
    os.close(fd)
    env = dict(os.environ)
    env.update({"SKMATTER_VERIF": "1", "SKMATTER_VERIF_TRACE_FILE": path, "PYTHONPATH": os.environ.get("SKMATTER_SRC", "/repo/src")})
    root = os.path.dirname(os.environ.get("SKMATTER_SRC", "/repo/src").rstrip("/"))
    p = subprocess.run(["/venv/bin/python", "-m", "pytest", "-q", "-p", "no:cacheprovider", "--timeout=900", "-q"] + TESTS + list(extra_tests),
                       cwd=root, env=env, stdout=subprocess.PIPE, stderr=subprocess.STDOUT, text=True)
    recs = [json.loads(l) for l in open(path) if l.strip()]
    os.unlink(path)
    return recs, p.stdout[-300:]


def nts_form(r):
    if r == "None":
        return ["none"]
    try:
        return ["int", int(r)]
    except ValueError:
        pass
    f = float(r.replace("np.float64(", "").rstrip(")"))
    return ["frac", int(round(f * 1000000)), 1000000]


def convert(recs, max_cells=150000):
    by = {}
    for r in sorted(recs, key=lambda x: x["seq"]):
        by.setdefault(r["obj"], []).append(r)
    traces, skipped = [], 0
    for oid, evs in by.items():
        if not evs or evs[0]["a"] != "begin":
            skipped += 1
            continue
        n = evs[0]["n"]
        cells = sum(len(e.get("score", [])) for e in evs)
        if cells > max_cells or any(e["a"] == "begin" and e["n"] != n for e in evs):
            skipped += 1           # very long fits / an object refitted on data of another size: not converted
            continue
        family = "fps" if "FPS" in evs[0]["cls"] else "cur"
        out = []
        for e in evs:
            if e["a"] == "begin":
                thr = ["none"]
                if e["thr"] is not None:
                    thr = ["abs", int(round(e["thr"] * 1000000)), 1] if e["thr_type"] == "absolute" else ["rel", int(round(e["thr"] * 100)), 100]
                try:
                    nts = nts_form(e["nts"])
                except Exception:
                    nts = ["int", e["resolved"]]
                out.append({"a": "begin", "nts": nts, "thr": thr, "warm": e["warm"], "init": [] if e["warm"] else e["idx"], "raised": False, "msg": ""})
            elif e["a"] == "step":
                out.append({"a": "step", "c": e["c"], "score": e["score"]})
            elif e["a"] == "post":
                p = {"nsel": e["nsel"], "idx": e["idx"], "xsel": e["xsel"], "support": e["support"], "sorted": [], "ordered": [],
                     "hasy": e["hasy"], "ysel": e["ysel"], "hastr": False, "tcols": [], "views": False}
                out.append({"a": "post", "p": p, "warm": False})
        # a fit that raised after it began leaves no post: cut the trace before that begin
        last_post = max([i for i, e in enumerate(out) if e["a"] == "post"], default=-1)
        out = out[:last_post + 1]
        if out:
            traces.append({"id": "hook-" + oid, "n": n, "family": family, "tol": 2, "events": out, "cls": evs[0]["cls"]})
    return traces, skipped
