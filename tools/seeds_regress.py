#!/venv/bin/python
"""Re-run every stored seeded change against the current checks with a given VERIF_SEED.
Uses a scratch worktree of /repo HEAD (never /repo itself) via SKMATTER_SRC.
usage: tools/seeds_regress.py <seed> [worktree-dir]   -> prints one line per seeded change and a summary"""
import json, os, subprocess, sys
seed = sys.argv[1] if len(sys.argv) > 1 else "21"
wt = sys.argv[2] if len(sys.argv) > 2 else "/tmp/wt_regress"
here = os.path.dirname(os.path.dirname(os.path.abspath(__file__)))
def sh(cmd, **kw):
    return subprocess.run(cmd, shell=True, stdout=subprocess.PIPE, stderr=subprocess.STDOUT, text=True, **kw)
if not os.path.isdir(wt):
    print(sh("git -C /repo worktree add -f --detach %s HEAD" % wt).stdout[-200:])
sh("git -C %s checkout -q --detach main && git -C %s checkout -- ." % (wt, wt))
res = {}
for sid in sorted(os.listdir(os.path.join(here, "seeded"))):
    d = os.path.join(here, "seeded", sid)
    meta = json.load(open(os.path.join(d, "meta.json")))
    props = [p for p, v in meta["checks_run_with_patch_applied_to_repo"].items() if v["exit"] == 1] or [meta["breaks_property"]]
    ap = sh("git -C %s apply %s" % (wt, os.path.join(d, "patch.diff")))
    if ap.returncode != 0:
        res[sid] = "patch-does-not-apply-any-more"
        print(sid, res[sid]); sys.stdout.flush()
        sh("git -C %s checkout -- ." % wt)
        continue
    det = []
    for p in props[:1]:
        r = sh("cd %s && SKMATTER_SRC=%s/src VERIF_SEED=%s ./check %s --tier quick" % (here, wt, seed, p))
        nv = sum(1 for l in r.stdout.splitlines() if l.startswith("VIOLATION"))
        det.append((p, r.returncode, nv))
    sh("git -C %s checkout -- ." % wt)
    res[sid] = det
    print(sid, det); sys.stdout.flush()
miss = [k for k, v in res.items() if isinstance(v, list) and not any(rc == 1 and nv > 0 for _, rc, nv in v)]
print("SUMMARY seed=%s: %d seeded changes, %d detected, missed: %s, stale patches: %s" % (
    seed, len(res), sum(1 for v in res.values() if isinstance(v, list)) - len(miss), miss, [k for k, v in res.items() if not isinstance(v, list)]))
