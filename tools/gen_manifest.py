#!/venv/bin/python
"""Regenerates MANIFEST.json from the table below and validates it against the schema."""
import json, os, sys
HERE = os.path.dirname(os.path.dirname(os.path.abspath(__file__)))
NOTE_COMMON = ("Trusted base: TLC 1.8.0 evaluating the TLA+ modules under /verif/spec; the Python harness that drives "
               "the real code from /repo/src, projects public state to integers and parses TLC's verdict strings; "
               "numpy only as a supplier of witnesses that the specification verifies before use.")
CHECKS = {
 "C01": dict(text="Exhaustive TLC model checking of the reference selector lifecycle (all score tables x requests x thresholds x cold/warm "
                  "histories, N=4) and of the implementation-shaped model of GreedySelector.fit; plus TLC trace validation of hundreds "
                  "(quick) / thousands (thorough) of real selector lifecycles (9 classes, every n_to_select form, thresholds, "
                  "initialisations, warm-start chains, rank-deficient and duplicated data) against the same reference operators, "
                  "every step and every derived view checked; exact families also on scaled lattices (the code sees X*c, c from 1e-5 to 1e3).", ref="6/C01, 11.2",
             tech="TLA+ reference + implementation-shaped spec model-checked with TLC; TLC trace validation of recorded selector lifecycles"),
}
CHECKS["C02"] = dict(text="TLC checks on all placements of 4-5 points of a small 2-D lattice that the incremental FPS table equals the brute-force "
    "table, selected items have distance 0 and select-distances never increase; TLC then validates recorded fits of the real FPS / PCov-FPS "
    "(sample) / VoronoiFPS classes in both directions (integer lattices with many exact ties, duplicates, clusters; int/list/random "
    "initialisation; warm starts) against reference FPS: the score table at every decision, every choice (tie-aware), get_distance and "
    "get_select_distance are compared exactly with distances TLC recomputes by brute force from the coordinates (also on scaled lattices, 1e-7 .. 1e3); "
    "feature-direction PCov-FPS is checked in fixed point against the PCovR-modified covariance the specification builds from a verified thin-SVD witness.", ref="6/C02, 11.2",
    tech="TLA+ reference FPS model-checked with TLC; exact-integer TLC trace validation of recorded FPS fits")
CHECKS["C06"] = dict(text="Exhaustive TLC check that the implementation-shaped VoronoiFPS model (cells, quarter-distance pruning, full/sparse branch, "
    "every switching point incl. every calibration outcome) refines reference FPS on all placements of 4 (quick) / 5 (thorough) lattice points, with "
    "vacuity probes (pruning and sparse branch reachable) and a mutation demo (factor 1/2 yields a counterexample); the bisection calibration is a "
    "TLA+ state machine whose complete behaviour set is replayed in the real code with a scripted clock; all real VoronoiFPS fits (clustered data, "
    "all n_to_select forms, warm starts) are validated by TLC against reference FPS step by step.", ref="6/C06",
    tech="implementation-shaped TLA+ model refining reference FPS (TLC); replay of TLC-enumerated timing schedules; TLC trace validation")
CHECKS["C08"] = dict(text="TLC model-checks the implementation-shaped selector model over all <=3-fit cold/warm histories (chain result = cold fit); TLC "
    "enumerates every increasing warm-start schedule up to N=6 (63) and each is replayed on 14 selector variants x data sets; TLC compares the "
    "state after every fit of every chain (selection, stored data, score/distance tables, support) with the cold fit of the same request, "
    "tie-aware from the first tied decision; also prefix independence, FPS restart from a selected prefix, warm start on an unfitted selector; schedules "
    "up to N=12 are sampled with tlc -simulate and replayed the same way.", ref="6/C08, 11.2",
    tech="TLC-enumerated call histories replayed in the real selectors; TLC compares chain states with cold-fit states (history registers)")
CHECKS["C15"] = dict(text="TLC verifies the metric laws (symmetry, zero exactly on images, invariance under integer image shifts, <= free-space distance, "
    "<= half the cell diagonal, triangle inequality in squared form) exhaustively for the reference minimum-image function on all triples of lattice "
    "points of {-2L..2L}^d; the implementation's outputs on integer points / cells (dyadic scales, points far outside the cell, exactly half a cell "
    "apart, anisotropic cells, stacks of L L^T precisions, mismatched cell dimension) are then required by TLC to EQUAL that reference function exactly.", ref="6/C15",
    tech="TLC exhaustive check of metric laws on the reference definition; exact TLC validation that recorded outputs equal the reference")
CHECKS["C16"] = dict(text="TLC explores a step-machine transcription of QuickShift.fit (ascent with path list, early break, root propagation; both "
    "the cut-off rule with nearest-neighbour fallback and the Gabriel-shell rule) for ALL placements of 3 (quick) / 4 (thorough) lattice points x all weight "
    "orders x all cut-off assignments and checks that the final labelling is valid for the declarative reference relation (three-valued at exact "
    "equalities), the heaviest point is a centre, labels are centres, and the code's Gabriel graph lies between the Must/May brute-force graphs; a "
    "mutation demo must yield a counterexample. Real QuickShift fits (1-4 dimensions, duplicates, collinear sets, per-point cut-offs, shells 1-3, "
    "scale, periodic cells) and their permuted / re-weighted / image-shifted variants are validated by TLC against the same reference; in free space, "
    "where dyadic coordinates make every comparison exact, the recorded Gabriel graph must EQUAL the brute-force definition (ties on the sphere included).", ref="6/C16",
    tech="implementation-shaped TLA+ step machine checked against a declarative reference (TLC); TLC validation of recorded fits incl. metamorphic variants")
CHECKS["C19"] = dict(text="TLC checks on ALL small integer point sets (1 and 2 hull dimensions) in general position that the reference definition "
    "(a sample is a vertex iff strictly below every convex combination of the others at its position, by exact orientation determinants) coincides "
    "with the supporting-facet lower hull, gives offset 0 on vertices and > 0 elsewhere, and is invariant under points added strictly above and positive "
    "affine maps of y; recorded fits of the real class (1-3 hull dimensions, 0-3 extra columns, any low_dim_idx order, convex and non-convex targets, "
    "queries inside the footprint, metamorphic variants) are validated by TLC against that reference with exact rational offsets.", ref="6/C19",
    tech="exact-arithmetic TLA+ reference hull model-checked with TLC; TLC validation of recorded fits and queries")
CHECKS["C11"] = dict(text="TLC enumerates every 3x2 matrix over {-1,0,2} x weightings x flag combinations (23 328 configurations; thorough: all, quick: every "
    "16th) and each is replayed in the real scaler; TLC then decides, from the integer inputs, whether the fit had to be rejected (variance guard in exact "
    "rationals) and checks on the implementation's OUTPUT that the transformed training data has weighted mean 0 / variance 1 (fixed point, "
    "magnitude-derived budgets), that inverse_transform undoes transform exactly, that new data is mapped by the same affine map, and the routes "
    "(repeated rows, StandardScaler, prior shift, prior rescaling up to sign); plus seeded larger lattices with widely different column scales.", ref="6/C11",
    tech="TLC-enumerated configurations replayed in the code; TLC validates recorded outputs against exact-rational / fixed-point laws")
CHECKS["C12"] = dict(text="TLC enumerates every 3x2 integer feature matrix x weighting x flag combination x test-set size (34 992 configurations; thorough: all) "
    "and each is replayed in KernelNormalizer; from the explicit features the specification computes the feature-space result exactly in rationals "
    "(weighted centring, one common trace scale) and compares train-train and test-train kernels, the trace, scale_ and fit_transform; for "
    "SparseKernelCenterer it checks vanishing weighted column means and Nystrom trace n with a pseudo-inverse witness verified through the "
    "Moore-Penrose equations; plus seeded larger feature lattices with arbitrary test and active sets.", ref="6/C12",
    tech="TLC-enumerated configurations replayed in the code; TLC validates outputs against the exact feature-space result (rationals, verified witnesses)")
CHECKS["C20"] = dict(text="TLC enumerates the discrete shape space of the calls (environments per training/test structure incl. singletons, component "
    "partitions: 31 941 shapes; a seeded slice is replayed with integer features and alphas over 9 orders of magnitude); the specification rebuilds "
    "M^T M + alpha s^2 I in fixed point from the integers, verifies the supplied inverse witness and evaluates the closed forms of LPR and LCPR; output "
    "partition/order, positivity, rescaling invariance, monotonicity in alpha, LCPR(one component)=LPR, CPR(one environment)=LCPR and rank_diff (exact "
    "integer rank for alpha=0) are checked on every case.", ref="6/C20",
    tech="TLC-enumerated call shapes replayed in the code; TLC validates closed form with a verified inverse witness and the scaling laws as output relations")
CHECKS["C18"] = dict(text="For recorded fits on integer data the specification checks in fixed point: orthogonality of the padded weight matrix; partial "
    "isometry and range containment in projector mode (thin-SVD witness of the linear coefficients verified first); |predict(x)| <= |x|; recovery of "
    "rational orthogonal maps (signed permutations x Pythagorean Givens rotations) for every relation of feature and target counts; and Procrustes "
    "optimality against competitors enumerated by TLC inside each case - all signed permutation matrices of the padded size (up to 384) and rotations of "
    "the fitted map by 8 rational angles in every coordinate plane (reduced-space signed permutations in projector mode). No design-level state space: "
    "TLC acts as evaluator of the specification and enumerator of competitors.", ref="6/C18",
    tech="TLC evaluates fixed-point defining equations on recorded fits and enumerates competitor orthogonal maps")
CHECKS["C14"] = dict(text="For chains of recorded fits (both spaces, every k from 1 to min(n,m), mixing in (0,1], 1-D and 2-D targets, new data) TLC "
    "evaluates in fixed point the identities among the implementation's own outputs: transform = X pxt_, predict(X) = predict(T=transform(X)), T^T T = "
    "diag(retained eigenvalues), transform(inverse_transform(T)) = T, pxy_ = pxt_ pty_, nestedness of the components in k (when the spectrum is separated), "
    "non-increasing losses in k, score = -(sum of relative losses), 1-D shapes. No design-level state space: TLC is the evaluator of the specification.", ref="6/C14",
    tech="TLC evaluates fixed-point identities of the TLA+ specification on recorded PCovR fits")
CHECKS["C03"] = dict(text="For groups of recorded fits of the same data, mixing and k through every route (feature / sample space x full / arpack / "
    "randomized solver x default Ridge / Ridge(alpha) / LinearRegression / precomputed Yhat with and without W; tall, wide, square and rank-deficient "
    "centred lattices) TLC rebuilds the modified Gram matrix from X and the logged regressed targets and checks the eigen-certificate of every fit "
    "(Kt T = T Lam, spectrum decreasing, explained variance = lam/(n-1), Frobenius deflation bound for top-k-ness) and that all routes of a group agree "
    "on latent coordinates up to column signs, predictions, reconstruction and spectrum whenever the specification finds the retained spectrum separated.", ref="6/C03",
    tech="TLC evaluates eigen-certificates and route-agreement registers of the TLA+ specification on recorded PCovR fits")
CHECKS["C04"] = dict(text="For chains of recorded fits along the mixing grid 0, 1/8, ..., 1 (fixed data and k) TLC checks, with the modified Gram matrix "
    "rebuilt from X and the logged Yhat: the eigen-certificate of each fit; optimality of the mixed objective against competitor k-dimensional subspaces "
    "- every coordinate subspace (all k-subsets of the sample axes, enumerated by TLC), the PCA and regression subspaces, random subspaces and "
    "perturbations of the fitted one (bases verified orthonormal), and the fitted subspace rotated by 6 rational Givens angles in every coordinate "
    "plane; mixing=1 = PCA (eigenbasis witness verified, scores computed by the specification); mixing=0 with k >= targets = linear regression "
    "(normal equations verified on the logged Yhat); losses monotone along the grid.", ref="6/C04",
    tech="TLC evaluates the mixed objective for TLC-enumerated and verified competitor subspaces on recorded PCovR fits; action-style monotonicity along the mixing grid")
CHECKS["C05"] = dict(text="On recorded KernelPCovR fits (kernels linear, rbf, poly, cosine, sigmoid with PSD values; center on/off; default, unfitted and fitted "
    "KernelRidge regressors; mixing and k grids) TLC evaluates in fixed point, from the logged raw kernel blocks: feature-space centring/scaling of "
    "K_NN, K_VN and K_VV (center=True), the eigen-certificate of the latent coordinates w.r.t. the modified kernel built with the logged dual "
    "coefficients, and the documented score (witness for (T_N^T T_N)^-1 verified) for held-out sets of size 1, <n, =n and >n, which must not raise; "
    "route registers: linear kernel = sample-space PCovR with the equivalent ridge, named kernel = precomputed, center=True = explicit "
    "KernelNormalizer, mixing=1 = kernel PCA up to sign and the normaliser's scale.", ref="6/C05",
    tech="TLC evaluates the documented loss, centring law and eigen-certificate of the TLA+ specification on recorded fits; route registers")
CHECKS["C10"] = dict(text="TLC enumerates the configuration matrix (2 methods x 2 alpha types x 3 scorers x 4 fold kinds x n_jobs = 96) and each configuration is "
    "replayed on lattice data (full rank, rank-deficient, duplicated columns, wide); for every alpha and fold a witness model is verified by the "
    "specification through its defining equations (Tikhonov normal equations; cut-off in a verified eigenbasis), the specification then predicts the "
    "other fold, scores it as sklearn's multi-output scorers do (roots / quotients as verified witnesses) and compares with cv_values_; alpha_ must be "
    "a best grid value, coef_ the regularised full-data solution with nothing in the numerical null space, predict = X coef_^T; relative alphas are "
    "checked against verified top singular values.", ref="6/C10",
    tech="TLC-enumerated configurations replayed in the code; TLC verifies witnesses by defining equations and recomputes the cross-validation values")
CHECKS["C13"] = dict(text="TLC enumerates the scenario matrix (all 25 pairs of feature dimensions x 7 transformations x 2 rational rotation angles = 350) and each "
    "scenario is replayed on the real measures with lattice data; the specification checks in fixed point: every measure is defined (no exception for "
    "X wider or narrower than Y), pointwise values non-negative, each global value is the RMS of its pointwise values, GRE(X, XA) = 0, GRD(X, XQ) = 0 "
    "for rational orthogonal Q, training-set GRE <= 1, LRE with all training points as neighbours = pointwise GRE, and GRE/GRD/LRE unchanged under the "
    "enumerated source rotations/reflections, rescalings and shifts of either space and target rotations (fixed regularisation).", ref="6/C13",
    tech="TLC-enumerated scenarios replayed in the code; TLC checks metamorphic relations and vanishing/bound laws on the recorded outputs")
CHECKS["C07"] = dict(text="For the configuration matrix class (CUR / PCov-CUR, both directions) x k x recompute_every in {0,1,2,3} x mixing grid, every greedy "
    "decision of recorded fits is checked by TLC in fixed point: the public residual matrix is the input with the span of the selected items projected "
    "out (orthogonality + span membership with a verified coefficient witness), the unexplained targets follow the documented law per direction, and "
    "the score table equals the leverage of the top-k eigenvectors of R^T R or of the PCovR-modified matrix the specification builds from the residual and "
    "unexplained y AS OF THE MOST RECENT REFRESH (complete eigenbasis witness verified; pseudo-inverse square root witness verified for the feature "
    "direction), the choice being a maximiser over unselected items; exposed final residual orthogonal to all selections; duality and mixing=1=CUR as routes.", ref="6/C07",
    tech="TLC evaluates residual, target and leverage-score laws of the TLA+ specification on every recorded greedy decision (verified witnesses)")
CHECKS["C17"] = dict(text="Recorded SparseKDE fits on integer lattices (1-3 dimensions; multi-modal, anisotropic, degenerate clouds; integer weights; "
    "arbitrary grids; fpoints / fspread; free and periodic) are validated by TLC: every descriptor is assigned to a nearest grid point under the exact "
    "(minimum-image) distance, grid weights are the exact sums of the assigned weights and total one, bandwidths are finite, symmetric and positive "
    "definite (Sylvester minors in fixed point), score = sum of score_samples, and - when the specification finds the assignment tie-free - "
    "log-densities are unchanged by translation, consistent permutation and whole-cell shifts of queries, descriptors and grid points. Part 2 checks the "
    "documented mixture itself: sum over all terms of exp(term - score) = 1 with a table-driven exp (ExpTab, self-checked by TLC), grid-level or "
    "descriptor-level terms chosen by the specification's own Mahalanobis distance against the cut-off, inverse bandwidths / log-determinants / "
    "log-weights as verified witnesses (about 3 %).", ref="6/C17, 11.3",
    tech="TLC validates recorded fits against the exact Voronoi-assignment / weight laws and symmetry registers of the TLA+ specification")
CHECKS["C09"] = dict(text="TLC model-checks the abstract lifecycle (caller memory cells, hyper-parameters, learned state) over all histories of <= 3 fits and "
    "shows that each mechanism found in the code (attribute replaced only when targets are given, hyper-parameter written back by fit, in-place "
    "scaling of a caller array) violates exactly one invariant; TLC enumerates every history of <= 3 fits over {data A, B, C (same shape as A)} x {with y, without y} x "
    "{small, large request / the two settings of a switched hyper-parameter} (1884) and they are replayed on 35 estimator configurations in four memory layouts (C, F, read-only, strided view); TLC "
    "validates every recorded call: byte digests of all caller arrays unchanged, get_params unchanged by fit, fit returns self, the learned state "
    "after ANY history equals the register written by a fresh estimator, repeated calls agree, fit_transform = fit;transform; the same for 20 "
    "public functions / constructors taking caller arrays.", ref="6/C09",
    tech="TLA+ lifecycle model checked with TLC; TLC-enumerated call histories replayed in the code; TLC trace validation of purity / freshness registers")
NA = {}
def main():
    props = [json.loads(l)["id"] for l in open(os.path.join(HERE, "properties.jsonl"))]
    checks = []
    for p in props:
        if p not in CHECKS:
            continue
        c = CHECKS[p]
        checks.append({
            "property_id": p,
            "quick_cmd": "./check %s --tier quick" % p,
            "thorough_cmd": "./check %s --tier thorough" % p,
            "evidence_file": "/verif/evidence/%s.json" % p,
            "replay_cmd_template": "./check %s --replay {path}" % p,
            "engine": "tlc",
            "level_claimed": {"category": "model_checking", "text": c["text"], "design_ref": "DESIGN.md " + c["ref"]},
            "level_note": c.get("note", NOTE_COMMON),
            "technique": c["tech"],
        })
    na = [{"property_id": p, "reason": NA.get(p, "check not built yet in this round (see DESIGN.md section 10 for the build order)")}
          for p in props if p not in CHECKS]
    man = {
        "version": 1,
        "setup_cmd": "./setup.sh",
        "hooks": {"guard": "SKMATTER_VERIF", "enable": "SKMATTER_VERIF=1 SKMATTER_VERIF_TRACE_FILE=<ndjson> (set by harness/hooktraces.py when it runs the repository's selector tests); every other observation uses public attributes and run-time wrappers of public methods, no build step",
                  "baseline_off_cmd": "/verif/tools/baseline_off.py", "source_commits": ["5a28a27"], "add_only": True},
        "engines": [{"name": "tlc", "path": "/verif/check", "serves_properties": [c["property_id"] for c in checks],
                     "kind_free_text": "explicit TLA+ specifications under /verif/spec model-checked with TLC 1.8.0; conformance by TLC trace validation of executions of the real code and by replay of TLC-generated behaviours"}],
        "checks": checks,
        "not_applicable": na,
        "notes": "One entry point ./check <id>; exit 0 held, 1 violation (VIOLATION lines), 2 machinery failure. Known findings in /verif/known_findings.json.",
    }
    with open(os.path.join(HERE, "MANIFEST.json"), "w") as fh:
        json.dump(man, fh, indent=1)
    import subprocess
    subprocess.run(["python3-vt", "-c", "import json,jsonschema,sys; jsonschema.validate(json.load(open(sys.argv[1])), json.load(open('/root/.vp/MANIFEST.schema.json')))",
                    os.path.join(HERE, "MANIFEST.json")], check=True)
    print("MANIFEST.json written: %d checks, %d not_applicable" % (len(checks), len(na)))
if __name__ == "__main__":
    main()
