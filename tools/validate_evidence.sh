#!/bin/sh
# validate every evidence file against the schema (uses the tooling venv's jsonschema)
for f in /verif/evidence/*.json; do
python3-vt -c "import json,jsonschema,sys; jsonschema.validate(json.load(open(sys.argv[1])), json.load(open('/root/.vp/EVIDENCE.schema.json'))); print('ok', sys.argv[1])" "$f" || exit 1
done
