#!/venv/bin/python
"""Run the repository's own test suite with the verification guard OFF and compare with
/root/.vp/BASELINE.json: every stable_pass test must still pass.  Exit 0 iff so."""
import json, os, subprocess, sys, tempfile
import xml.etree.ElementTree as ET

base = json.load(open("/root/.vp/BASELINE.json"))
env = {k: v for k, v in os.environ.items() if k != "SKMATTER_VERIF"}
fd, path = tempfile.mkstemp(suffix=".junit.xml"); os.close(fd)
cmd = ["/venv/bin/python", "-m", "pytest", "-ra", "-q", "-p", "no:cacheprovider", "--timeout=900",
       "--continue-on-collection-errors", "--junitxml=" + path] + sys.argv[1:]
p = subprocess.run(cmd, cwd="/repo", env=env, stdout=subprocess.PIPE, stderr=subprocess.STDOUT, text=True)
passed = set()
for tc in ET.parse(path).getroot().iter("testcase"):
    bad = any(ch.tag in ("failure", "error", "skipped") for ch in tc)
    if not bad:
        passed.add("%s::%s" % (tc.get("classname"), tc.get("name")))
os.unlink(path)
want = set(base["stable_pass"])
# BASELINE ids are classname::name with classname dotted; tolerate either spelling
def norm(s): return s.replace("/", ".")
passed_n = {norm(x) for x in passed}
missing = sorted(w for w in want if norm(w) not in passed_n)
print(p.stdout[-1500:])
print("baseline stable_pass=%d now passing=%d missing=%d" % (len(want), len(want) - len(missing), len(missing)))
for m in missing[:40]:
    print("  NOT PASSING:", m)
sys.exit(1 if missing else 0)
