#!/venv/bin/python
"""Operator-level mutation campaign (self-assessment of the checks, never part of a registered command).

usage: tools/mutate.py <target-key> [--max N] [--seed S] [--wt DIR]

For the source file behind <target-key> (see TARGETS) every mutation site is enumerated with `ast`
(comparison / arithmetic operators, boolean negation of `if` tests, numeric constants, axis arguments, slice
bounds), N of them are sampled, and each mutant is
  1. written into a scratch worktree of /repo HEAD (never /repo itself),
  2. run against the RELATED files of the repository's test-suite (a mutant that fails them is "killed by tests"
     and of no interest: the checks are meant for changes the tests do not see),
  3. if it survives, run against the related quick checks with SKMATTER_SRC pointing at the worktree.
Results are appended to /verif/out/mutation/<target-key>.jsonl; survivors of both stages are listed at the end
(equivalent mutants or gaps - to be read by a human)."""
import ast, json, os, random, subprocess, sys, time

TARGETS = {
    "selection": ("src/skmatter/_selection.py", ["tests/test_greedy_selector.py", "tests/test_feature_simple_fps.py", "tests/test_feature_simple_cur.py", "tests/test_feature_pcov_fps.py",
                                                 "tests/test_feature_pcov_cur.py", "tests/test_sample_simple_fps.py", "tests/test_sample_pcov_fps.py", "tests/test_sample_pcov_cur.py",
                                                 "tests/test_voronoi_fps.py"], ["C01", "C02", "C07", "C08"]),
    "voronoi": ("src/skmatter/sample_selection/_voronoi_fps.py", ["tests/test_voronoi_fps.py"], ["C06", "C01"]),
    "dch": ("src/skmatter/sample_selection/_base.py", ["tests/test_dch.py"], ["C19"]),
    "pcovr": ("src/skmatter/decomposition/_pcovr.py", ["tests/test_pcovr.py", "tests/test_kernel_pcovr.py"], ["C03", "C04", "C14"]),
    "kpcovr": ("src/skmatter/decomposition/_kernel_pcovr.py", ["tests/test_kernel_pcovr.py"], ["C05"]),
    "ridge": ("src/skmatter/linear_model/_ridge.py", ["tests/test_linear_model.py", "tests/test_metrics.py"], ["C10"]),
    "orthreg": ("src/skmatter/linear_model/_base.py", ["tests/test_linear_model.py", "tests/test_metrics.py"], ["C18"]),
    "preprocessing": ("src/skmatter/preprocessing/_data.py", ["tests/test_standard_flexible_scaler.py", "tests/test_kernel_normalizer.py", "tests/test_sparse_kernel_centerer.py"], ["C11", "C12"]),
    "pairwise": ("src/skmatter/metrics/_pairwise.py", ["tests/test_metrics.py", "tests/test_neighbors.py", "tests/test_clustering.py"], ["C15"]),
    "recon": ("src/skmatter/metrics/_reconstruction_measures.py", ["tests/test_metrics.py"], ["C13"]),
    "rigidity": ("src/skmatter/metrics/_prediction_rigidities.py", ["tests/test_metrics.py"], ["C20"]),
    "quickshift": ("src/skmatter/clustering/_quick_shift.py", ["tests/test_clustering.py"], ["C16"]),
    "sparsekde": ("src/skmatter/neighbors/_sparsekde.py", ["tests/test_neighbors.py"], ["C17"]),
    "kdeutils": ("src/skmatter/utils/_sparsekde.py", ["tests/test_neighbors.py"], ["C17"]),
    "orthogonalizers": ("src/skmatter/utils/_orthogonalizers.py", ["tests/test_orthogonalizers.py", "tests/test_feature_simple_cur.py", "tests/test_feature_pcov_cur.py", "tests/test_sample_pcov_cur.py"], ["C07"]),
    "pcovrutils": ("src/skmatter/utils/_pcovr_utils.py", ["tests/test_pcovr_distances.py", "tests/test_pcovr.py", "tests/test_feature_pcov_fps.py", "tests/test_sample_pcov_fps.py", "tests/test_feature_pcov_cur.py"], ["C02", "C07", "C03"]),
}

CMP = {ast.Lt: ast.LtE, ast.LtE: ast.Lt, ast.Gt: ast.GtE, ast.GtE: ast.Gt, ast.Eq: ast.NotEq, ast.NotEq: ast.Eq}
ARITH = {ast.Add: ast.Sub, ast.Sub: ast.Add, ast.Mult: ast.Div, ast.Div: ast.Mult, ast.MatMult: None}


def sites(tree):
    """All mutation sites as (kind, lineno, col, description, apply(node))."""
    out = []
    for node in ast.walk(tree):
        if isinstance(node, ast.FunctionDef) and node.name.startswith("__") and node.name != "__init__":
            continue
        if isinstance(node, ast.Compare) and len(node.ops) == 1 and type(node.ops[0]) in CMP:
            out.append(("cmp", node, "%s -> %s" % (type(node.ops[0]).__name__, CMP[type(node.ops[0])].__name__)))
        elif isinstance(node, ast.BinOp) and type(node.op) in ARITH and ARITH[type(node.op)] is not None:
            if isinstance(node.left, ast.Constant) and isinstance(node.left.value, str):
                continue
            out.append(("arith", node, "%s -> %s" % (type(node.op).__name__, ARITH[type(node.op)].__name__)))
        elif isinstance(node, ast.If):
            out.append(("negate-if", node, "if not (...)"))
        elif isinstance(node, ast.Constant) and isinstance(node.value, (int, float)) and not isinstance(node.value, bool):
            out.append(("const", node, "%r -> %r" % (node.value, mutate_const(node.value))))
        elif isinstance(node, ast.keyword) and node.arg == "axis" and isinstance(node.value, ast.Constant) and node.value.value in (0, 1):
            out.append(("axis", node, "axis %d -> %d" % (node.value.value, 1 - node.value.value)))
        elif isinstance(node, ast.UnaryOp) and isinstance(node.op, ast.USub):
            out.append(("drop-minus", node, "-x -> x"))
        elif isinstance(node, ast.BoolOp):
            out.append(("boolop", node, "%s -> %s" % (type(node.op).__name__, "Or" if isinstance(node.op, ast.And) else "And")))
    return [s for s in out if hasattr(s[1], "lineno") or isinstance(s[1], ast.keyword)]


def mutate_const(v):
    if v == 0:
        return 1
    if v == 1:
        return 0 if isinstance(v, int) else 0.5
    if isinstance(v, int):
        return v + 1
    return v * 2 if abs(v) >= 1e-6 else v * 1e6


def apply(kind, node):
    if kind == "cmp":
        node.ops[0] = CMP[type(node.ops[0])]()
    elif kind == "arith":
        node.op = ARITH[type(node.op)]()
    elif kind == "negate-if":
        node.test = ast.UnaryOp(op=ast.Not(), operand=node.test)
    elif kind == "const":
        node.value = mutate_const(node.value)
    elif kind == "axis":
        node.value = ast.Constant(value=1 - node.value.value)
    elif kind == "drop-minus":
        node.op = ast.UAdd()
    elif kind == "boolop":
        node.op = ast.Or() if isinstance(node.op, ast.And) else ast.And()


def sh(cmd, timeout=None, env=None):
    e = dict(os.environ)
    e.update(env or {})
    try:
        r = subprocess.run(cmd, shell=True, stdout=subprocess.PIPE, stderr=subprocess.STDOUT, text=True, timeout=timeout, env=e)
        return r.returncode, r.stdout
    except subprocess.TimeoutExpired:
        return 124, "timeout"


def main():
    key = sys.argv[1]
    nmax = int(sys.argv[sys.argv.index("--max") + 1]) if "--max" in sys.argv else 20
    seed = int(sys.argv[sys.argv.index("--seed") + 1]) if "--seed" in sys.argv else 0
    wt = sys.argv[sys.argv.index("--wt") + 1] if "--wt" in sys.argv else "/tmp/wt_mutate"
    rel, tests, checks = TARGETS[key]
    here = os.path.dirname(os.path.dirname(os.path.abspath(__file__)))
    if not os.path.isdir(wt):
        sh("git -C /repo worktree add -f --detach %s HEAD" % wt)
    head = sh("git -C /repo rev-parse HEAD")[1].strip()
    sh("git -C %s checkout -q --detach %s && git -C %s checkout -- ." % (wt, head, wt))
    path = os.path.join(wt, rel)
    src = open(path).read()
    n_sites = len(sites(ast.parse(src)))
    rng = random.Random(seed)
    picks = sorted(rng.sample(range(n_sites), min(nmax, n_sites)))
    os.makedirs(os.path.join(here, "out", "mutation"), exist_ok=True)
    logf = open(os.path.join(here, "out", "mutation", key + ".jsonl"), "a")
    summary = {"killed-by-tests": 0, "detected": 0, "survived": 0, "invalid": 0}
    survivors = []
    for idx in picks:
        tree = ast.parse(src)
        st = sites(tree)
        kind, node, desc = st[idx]
        line = getattr(node, "lineno", getattr(getattr(node, "value", None), "lineno", 0))
        apply(kind, node)
        try:
            new = ast.unparse(ast.fix_missing_locations(tree))
            compile(new, path, "exec")
        except Exception:
            summary["invalid"] += 1
            continue
        open(path, "w").write(new + "\n")
        rec = {"target": key, "site": idx, "kind": kind, "line": line, "mutation": desc, "source_line": src.splitlines()[line - 1].strip() if line else ""}
        t0 = time.time()
        rc, out = sh("cd %s && OMP_NUM_THREADS=1 PYTHONPATH=%s/src /venv/bin/python -m pytest -x -q -p no:cacheprovider --timeout=600 %s 2>&1 | tail -3" % (wt, wt, " ".join(tests)), timeout=1500)
        passed = (" passed" in out) and (" failed" not in out) and (" error" not in out.lower())
        rec["tests_s"] = round(time.time() - t0, 1)
        if not passed:
            rec["outcome"] = "killed-by-tests"
        else:
            det = {}
            for c in checks:
                rc2, out2 = sh("cd %s && SKMATTER_SRC=%s/src VERIF_SEED=%d ./check %s --tier quick" % (here, wt, seed, c), timeout=1800)
                det[c] = {"exit": rc2, "violations": sum(1 for l in out2.splitlines() if l.startswith("VIOLATION")),
                          "clause": next((l.split("clause=")[-1] for l in out2.splitlines() if l.startswith("VIOLATION") and "clause=" in l), "")}
                if rc2 == 1:
                    break
            rec["checks"] = det
            rec["outcome"] = "detected" if any(v["exit"] == 1 for v in det.values()) else ("machinery" if any(v["exit"] not in (0, 1) for v in det.values()) else "survived")
            if rec["outcome"] != "detected":
                survivors.append(rec)
        summary[rec["outcome"]] = summary.get(rec["outcome"], 0) + 1
        logf.write(json.dumps(rec) + "\n"); logf.flush()
        print("%-16s line %-4d %-22s %s   | %s" % (rec["outcome"], line, desc, rec["source_line"][:70], json.dumps(rec.get("checks", {}))[:120])); sys.stdout.flush()
        open(path, "w").write(src)
    sh("git -C %s checkout -- ." % wt)
    print("SUMMARY %s: %d sites, %d sampled: %s" % (key, n_sites, len(picks), summary))
    for r in survivors:
        print("SURVIVOR line %d %s: %s" % (r["line"], r["mutation"], r["source_line"]))


if __name__ == "__main__":
    main()
