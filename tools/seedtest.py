#!/venv/bin/python
"""Evaluate a seeded change: tools/seedtest.py <seed-id> <out-dir-of-agent> <property> [--tier quick] [--needs "..."]
Confirms the demonstration (passes on /repo, fails with the patch), runs the property's check with the
patch applied to a scratch worktree (SKMATTER_SRC), undoes the patch, and stores /verif/seeded/<seed-id>/."""
import json, os, shutil, subprocess, sys, time
sid, src, prop = sys.argv[1], sys.argv[2], sys.argv[3]
tier = sys.argv[sys.argv.index("--tier") + 1] if "--tier" in sys.argv else "quick"
needs = sys.argv[sys.argv.index("--needs") + 1] if "--needs" in sys.argv else open(os.path.join(src, "notes.txt")).read()[:1500]
others = [a for a in sys.argv[4:] if a.startswith("C") and len(a) == 3]
# the patch is applied to a scratch worktree of /repo's HEAD (never to /repo itself, which registered checks may be using)
def sh(cmd, **kw):
    return subprocess.run(cmd, shell=True, stdout=subprocess.PIPE, stderr=subprocess.STDOUT, text=True, **kw)
WT = os.environ.get("SEEDTEST_WT", "/tmp/wt_seedtest")
if not os.path.isdir(WT):
    sh("git -C /repo worktree add -f --detach %s HEAD" % WT)
sh("git -C %s checkout -q --detach %s && git -C %s checkout -- ." % (WT, sh("git -C /repo rev-parse HEAD").stdout.strip(), WT))
st = sh("git -C %s status --porcelain" % WT)
assert st.stdout.strip() == "", "worktree not clean: " + st.stdout
patch = os.path.join(src, "patch.diff")
demo = os.path.join(src, "demo.py")
d0 = sh("PYTHONPATH=/repo/src /venv/bin/python %s" % demo)
ap = sh("git -C %s apply %s" % (WT, patch))
res = {}
try:
    assert ap.returncode == 0, "patch does not apply: " + ap.stdout
    d1 = sh("PYTHONPATH=%s/src /venv/bin/python %s" % (WT, demo))
    for p in [prop] + others:
        t0 = time.time()
        r = sh("cd /verif && SKMATTER_SRC=%s/src VERIF_SEED=%s ./check %s --tier %s" % (WT, os.environ.get("VERIF_SEED", "0"), p, tier))
        viol = [l for l in r.stdout.splitlines() if l.startswith("VIOLATION")]
        res[p] = {"exit": r.returncode, "violation_lines": len(viol), "first": viol[:2], "wall_s": round(time.time() - t0, 1),
                  "tail": r.stdout.splitlines()[-2:]}
finally:
    sh("git -C %s checkout -- ." % WT)
clean = sh("git -C %s status --porcelain" % WT).stdout.strip() == ""
out = os.path.join("/verif/seeded", sid)
os.makedirs(out, exist_ok=True)
shutil.copy(patch, os.path.join(out, "patch.diff"))
shutil.copy(demo, os.path.join(out, "demo.py"))
meta = {"id": sid, "breaks_property": prop, "needs_to_manifest": needs,
        "demo_on_unchanged_tree_exit": d0.returncode, "demo_with_patch_exit": d1.returncode,
        "checks_run_with_patch_applied_to_repo": res, "tier": tier,
        "detected": any(v["exit"] == 1 and v["violation_lines"] > 0 for v in res.values()),
        "repo_restored": clean, "agent_notes": open(os.path.join(src, "notes.txt")).read() if os.path.exists(os.path.join(src, "notes.txt")) else ""}
json.dump(meta, open(os.path.join(out, "meta.json"), "w"), indent=1)
print(json.dumps({k: meta[k] for k in ("id", "demo_on_unchanged_tree_exit", "demo_with_patch_exit", "detected", "repo_restored")}), json.dumps(res)[:600])
