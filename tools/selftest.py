#!/venv/bin/python
"""Binding self-test: accepted recordings are corrupted (one field changed, one event dropped, two
events swapped) and must then be rejected by the trace specification.  Demonstrates that the
specifications are bound to the recorded state and not only to the length of a trace."""
import copy, json, os, sys
sys.path.insert(0, os.path.dirname(os.path.dirname(os.path.abspath(__file__))))
sys.path.insert(0, "/repo/src")
os.environ.setdefault("TQDM_DISABLE", "1")
os.environ.setdefault("OMP_NUM_THREADS", "1")
import numpy as np
from harness import core


def corruptions_selector(tr):
    out = []
    ev = tr["events"]
    steps = [i for i, e in enumerate(ev) if e["a"] == "step" and e["c"] > 0]
    posts = [i for i, e in enumerate(ev) if e["a"] == "post"]
    if steps:
        t = copy.deepcopy(tr); i = steps[-1]
        n = tr["n"]; t["events"][i]["c"] = t["events"][i]["c"] % n + 1
        out.append(("choice-changed", t))
        t = copy.deepcopy(tr); del t["events"][steps[0]]
        out.append(("step-dropped", t))
    if len(steps) >= 2:
        t = copy.deepcopy(tr); a, b = steps[0], steps[1]
        t["events"][a], t["events"][b] = t["events"][b], t["events"][a]
        out.append(("steps-swapped", t))
    if posts:
        t = copy.deepcopy(tr); p = t["events"][posts[-1]]["p"]
        if p["support"]:
            p["support"][0] = not p["support"][0]
            out.append(("support-bit-flipped", t))
        t = copy.deepcopy(tr); p = t["events"][posts[-1]]["p"]; p["nsel"] += 1
        out.append(("n_selected-off-by-one", t))
    return out


def run_family(name, module, cases, strip, corrupt, limit=40):
    v, _ = core.validate_cases(module, [strip(c) for c in cases])
    ok = [c for c in cases if v[c["id"]]["v"][0] == "ok"][:limit]
    res = {}
    batch = []
    for c in ok:
        for kind, t in corrupt(c):
            t = dict(t); t["id"] = "%s#%s" % (c["id"], kind)
            batch.append((kind, t))
    vv, _ = core.validate_cases(module, [strip(t) for _, t in batch])
    for kind, t in batch:
        r = res.setdefault(kind, {"n": 0, "rejected": 0})
        r["n"] += 1
        r["rejected"] += vv[t["id"]]["v"][0] == "rejected"
    print(name, json.dumps(res))
    return res


def main():
    out = {}
    from checks import c01, c02, c08, c16, c09
    tr = c01.gen_traces((0, 60, 7))
    out["TraceGreedy"] = run_family("TraceGreedy", "trace/TraceGreedy.tla", tr, c01.strip, corruptions_selector)
    cs = c02.gen((0, 30, 7))
    def cfps(c):
        o = []
        ev = c["events"]
        steps = [i for i, e in enumerate(ev) if e["a"] == "step" and e["c"] > 0]
        posts = [i for i, e in enumerate(ev) if e["a"] == "post"]
        if steps:
            t = copy.deepcopy(c); t["events"][steps[0]]["score"][0] += 2; o.append(("table-entry-changed", t))
            t = copy.deepcopy(c); del t["events"][steps[0]]; o.append(("step-dropped", t))
        if posts and ev[posts[-1]].get("table"):
            t = copy.deepcopy(c); t["events"][posts[-1]]["table"][-1] += 2; o.append(("get_distance-entry-changed", t))
        t = copy.deepcopy(c); t["P"][0][0] += 3; o.append(("coordinate-changed", t))
        return o
    out["TraceFPS"] = run_family("TraceFPS", "trace/TraceFPS.tla", cs, c02.strip, cfps)
    qs = c16.gen((0, 12, 7, False))
    def cqs(c):
        o = []
        if c["raised"] or len(c["labels"]) < 3:
            return o
        t = copy.deepcopy(c); i = 0
        t["labels"][i] = t["labels"][i] % c["n"] + 1; o.append(("label-changed", t))
        t = copy.deepcopy(c); t["W"][0], t["W"][1] = t["W"][1], t["W"][0]; o.append(("weights-swapped", t))
        return o
    out["TraceQuickShift"] = run_family("TraceQuickShift", "trace/TraceQuickShift.tla", qs, c16.strip, cqs)
    res = {"binding_selftest": out}
    os.makedirs(core.EVID, exist_ok=True)
    json.dump(res, open(os.path.join(core.VERIF, "selftest_results.json"), "w"), indent=1)
    core.cleanup()


if __name__ == "__main__":
    main()
