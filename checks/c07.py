"""C07 — CUR and PCov-CUR select by leverage score on the orthogonalised residual."""
import multiprocessing as mp
import warnings

import numpy as np

from harness import core

S = 16384


def fq(a):
    a = np.asarray(a, float)
    a = np.where(np.isfinite(a), a, 1e5)
    return np.rint(np.clip(a, -1.3e5, 1.3e5) * S).astype(int).tolist()


def run_selector(cls, axis, X, y, kw, nsel):
    """fit with a wrapper of the public score method; at every decision log pi, X_current_, y_current_"""
    obj = core.mk(cls, n_to_select=nsel, **kw)
    log = []
    orig = obj.score

    def wrapped(X_, y_=None, _o=orig):
        s = _o(X_, y_)
        R = np.array(obj.X_current_, float)
        yc = getattr(obj, "y_current_", None)
        log.append((np.array(s, float).copy(), R.copy() if axis == 1 else R.T.copy(), None if yc is None else np.array(yc, float).reshape(len(yc), -1).copy()))
        return s
    obj.score = wrapped
    with warnings.catch_warnings():
        warnings.simplefilter("ignore")
        obj.fit(X, y) if y is not None else obj.fit(X)
    return obj, log


def case(cid, rng, name, kk, re, mix8):
    import skmatter.feature_selection as F
    import skmatter.sample_selection as Sm
    cls, axis = {"fCUR": (F.CUR, 1), "sCUR": (Sm.CUR, 0), "fPCovCUR": (F.PCovCUR, 1), "sPCovCUR": (Sm.PCovCUR, 0)}[name]
    pcovfam = "PCov" in name
    ni = int(rng.integers(3, 7))            # number of items (3 items with k = 2: the dense eigen-solver branch k >= items - 1)
    nr = int(rng.integers(ni, 8))            # other dimension (>= items so that rank exceeds the selections)
    wide = name == "fPCovCUR" and ni >= 4 and rng.random() < 0.35
    if wide:
        nr = int(rng.integers(3, ni))        # fewer samples than features: the modified covariance is rank deficient from the start
    for _ in range(100):
        A = rng.integers(-3, 4, size=(nr, ni))
        if np.linalg.matrix_rank(A) == min(nr, ni):
            break
    X = (A if axis == 1 else A.T).astype(float)
    n_samples = X.shape[0]
    yv = rng.integers(-3, 4, size=n_samples).astype(float) if pcovfam else None
    nsel = int(rng.integers(2, min(4, min(ni, nr) - 1) + 1))        # the rank exceeds the number of selections
    if not pcovfam:
        kk = min(kk, min(nr, ni) - 1)        # plain CUR uses a truncated SVD that needs k < min(shape) (scipy's svds)
    kw = {"k": kk, "recompute_every": re}
    if pcovfam:
        kw["mixing"] = mix8 / 8.0
    c = {"id": cid, "name": name, "family": "pcov" if pcovfam else "cur", "pcov": ("covariance" if axis == 1 else "kernel") if pcovfam else "none",
         "mix": int(mix8), "k": int(kk), "re": int(re), "A": A.astype(int).tolist(), "y": [] if yv is None else fq(yv.reshape(-1, 1)),
         "steps": [], "final": [], "route": [], "raised": False, "tolu": 0}
    # the data is handed over in other units now and then (leverage scores do not depend on the unit; residuals are
    # converted back): tiny units bring every norm close to the documented zero tolerance of the orthogonaliser
    # (units are kept well above the estimators' ABSOLUTE numerical-rank thresholds of 1e-12 on eigenvalues)
    scale, tol = [(1.0, None), (1.0, None), (1e3, None), (0.05, 1e-2), (0.02, 1e-3)][int(rng.integers(5))]
    if tol is not None:
        kw["tolerance"] = tol
    c["tolu"] = 0 if tol is None else int(round(tol / scale * S))
    Xin = X * scale
    yvs = None if yv is None else yv * scale
    try:
        obj, log = run_selector(cls, axis, Xin, yvs, kw, nsel)
        log = [(pi, R / scale, None if yc is None else yc / scale) for (pi, R, yc) in log]
    except Exception as e:  # noqa
        c["raised"] = True
        c["msg"] = "%s: %s" % (type(e).__name__, str(e)[:120])
        return c
    idx = [int(i) for i in obj.selected_idx_]
    Af = A.astype(float)
    for t, (pi, R, yc) in enumerate(log):
        sel = idx[:t]
        st = {"c": idx[t] + 1, "pi": fq(pi), "R": fq(R), "yres": fq(yc) if yc is not None else [], "coef": [], "ycoef": [], "eig": {"V": [], "lam": []}, "svd": {"U": [], "sv": [], "V": []}}
        if sel:
            As = Af[:, sel]
            st["coef"] = fq(np.linalg.lstsq(As, Af - R, rcond=None)[0])          # witness
            if pcovfam and re != 0:
                if axis == 1:
                    st["ycoef"] = fq(np.linalg.lstsq(As, yv.reshape(-1, 1) - yc, rcond=None)[0])
                else:
                    Xs = As.T
                    st["ycoef"] = fq(np.linalg.lstsq(Xs, yv[sel].reshape(-1, 1), rcond=None)[0])
        # eigenbasis witness of the matrix the scores stem from (only needed at refresh points, cheap to give always)
        G = R.T @ R
        M = G
        if pcovfam and mix8 != 8:
            a = mix8 / 8.0
            if axis == 0:
                M = a * G + (1 - a) * (yc @ yc.T)
            else:
                U, sv, Vt = np.linalg.svd(R, full_matrices=False)
                keep = sv > 1e-6
                st["svd"] = {"U": fq(U[:, keep]), "sv": fq(sv[keep]), "V": fq(Vt[keep].T)}     # witness, verified by the specification
                B = Vt[keep].T @ (U[:, keep].T @ yc)
                M = a * G + (1 - a) * (B @ B.T)
        lam, V = np.linalg.eigh(M)
        st["eig"] = {"V": fq(V[:, ::-1]), "lam": fq(np.maximum(lam[::-1], 0))}
        c["steps"].append(st)
    Rf = np.array(obj.X_current_, float) / scale
    c["final"] = fq(Rf if axis == 1 else Rf.T)
    # routes: duality (the other direction on the transposed input) and mixing = 1 => CUR
    try:
        with warnings.catch_warnings():
            warnings.simplefilter("ignore")
            if not pcovfam:
                ocls = Sm.CUR if axis == 1 else F.CUR
                o2 = ocls(n_to_select=nsel, **kw).fit(Xin.T.copy())
                c["route"] = [int(i) + 1 for i in o2.selected_idx_]
            elif mix8 == 8:
                ocls = F.CUR if axis == 1 else Sm.CUR
                o2 = ocls(n_to_select=nsel, k=kk, recompute_every=re, **({"tolerance": kw["tolerance"]} if "tolerance" in kw else {})).fit(Xin.copy())
                c["route"] = [int(i) + 1 for i in o2.selected_idx_]
    except Exception:
        c["route"] = [0]
    return c


def gen(args):
    wid, cfgs, sd = args
    rng = np.random.default_rng([sd, wid, 707])
    return [case("c%d" % k, rng, *cfg) for k, cfg in core.timed(cfgs)]


KEYS = ("id", "family", "pcov", "mix", "k", "re", "A", "y", "steps", "final", "route", "raised", "tolu")


def strip(c):
    return {k: c[k] for k in KEYS}


def run(tier):
    rep = core.Report("C07", tier)
    # configuration matrix: class x k x refresh interval x mixing grid
    cfgs = []
    for name in ("fCUR", "sCUR"):
        for kk in (1, 2, 3):
            for re in (0, 1, 2, 3):
                cfgs.append((name, kk, re, 8))
    for name in ("fPCovCUR", "sPCovCUR"):
        for kk in (1, 2):
            for re in (0, 1, 2, 3):
                for mix in (0, 2, 4, 7, 8):
                    cfgs.append((name, kk, re, mix))
    reps = 2 if tier == "quick" else 12
    cfgs = [(i * 100 + r, c) for i, c in enumerate(cfgs) for r in range(reps)]
    with mp.Pool(core.NCPU) as pool:
        cases = [c for part in pool.map(gen, [(w, cfgs[w::core.NCPU], core.seed()) for w in range(core.NCPU)]) for c in part]
    verdicts, stats = core.validate_cases("trace/TraceCUR.tla", [strip(c) for c in cases], timeout=7200, chunks=core.NCPU, heap="4g")
    rep.add_trace_stats("TraceCUR", stats, len(cases))
    core.judge(rep, cases, verdicts)
    kinds = {}
    for c in cases:
        kinds[c["name"]] = kinds.get(c["name"], 0) + 1
    rep.cov["cases_by_class"] = kinds
    rep.cov["decisions_checked"] = sum(len(c["steps"]) for c in cases)
    rep.sample({k: cases[0][k] for k in ("name", "k", "re", "mix", "A")} | {"choices": [s["c"] for s in cases[0]["steps"]], "pi_first": cases[0]["steps"][0]["pi"] if cases[0]["steps"] else []})
    rep.assumptions += ["integer input matrices whose rank exceeds the number of selections; per-decision state is read through an instance-level wrapper of the public score method (pi) and the public attributes X_current_/y_current_",
                        "eigenbases, least-squares coefficients and the pseudo-inverse square root are numpy witnesses verified by the specification; decisions with a spectral gap at k below 4 % are inconclusive"]
    return rep.finish()


def replay(path):
    return core.replay_recorded(path, "trace/TraceCUR.tla", strip)
