"""C13 — reconstruction measures vanish on contained information and are isometry invariant."""
import multiprocessing as mp
import warnings

import numpy as np

from harness import core

S = 16384


def q1(v):
    v = float(v)
    return int(round(min(max(v, -1e5), 1e5) * S)) if np.isfinite(v) else 2000000000


def ql(a):
    return [q1(v) for v in np.ravel(a)]


def rat_rot(d, angle, reflect=False, rng=None):
    c, s_, h = angle
    Q = np.eye(d)
    if d >= 2:
        i, j = (0, 1) if rng is None else sorted(rng.choice(d, size=2, replace=False))
        Q[i, i], Q[i, j], Q[j, i], Q[j, j] = c / h, s_ / h, -s_ / h, c / h
    if reflect or d == 1:
        Q[:, 0] *= -1
    return Q


def measures(X, Y, n_local, est_kind, train_idx=None, test_idx=None, user_scaler=False):
    from skmatter.metrics import (global_reconstruction_distortion, global_reconstruction_error, local_reconstruction_error,
                                  pointwise_global_reconstruction_distortion, pointwise_global_reconstruction_error,
                                  pointwise_local_reconstruction_error)
    from skmatter.linear_model import Ridge2FoldCV
    kw = dict(train_idx=train_idx, test_idx=test_idx)
    if user_scaler:
        from skmatter.preprocessing import StandardFlexibleScaler
        kw["scaler"] = StandardFlexibleScaler(column_wise=True)      # user-supplied scaler (per-column standardisation)

    def est():
        if est_kind == "default":
            return None
        # rotation-invariant model selection: one fixed regularisation
        return Ridge2FoldCV(alphas=[1e-3], alpha_type="absolute", regularization_method="tikhonov", shuffle=False, n_jobs=1)
    out = {}
    out["gre"] = q1(global_reconstruction_error(X, Y, estimator=est(), **kw))
    out["pgre"] = ql(pointwise_global_reconstruction_error(X, Y, estimator=est(), **kw))
    out["grd"] = q1(global_reconstruction_distortion(X, Y, estimator=est(), **kw))
    out["pgrd"] = ql(pointwise_global_reconstruction_distortion(X, Y, estimator=est(), **kw))
    out["lre"] = q1(local_reconstruction_error(X, Y, n_local, estimator=est(), **kw))
    out["plre"] = ql(pointwise_local_reconstruction_error(X, Y, n_local, estimator=est(), **kw))
    return out


def case(cid, rng, sc):
    from skmatter.metrics import (global_reconstruction_distortion, global_reconstruction_error, pointwise_global_reconstruction_error,
                                  pointwise_local_reconstruction_error)
    from sklearn.linear_model import Ridge
    dx, dy, kind = sc["dx"], sc["dy"], sc["kind"]
    n = int(rng.choice([24, 24, 25, 23]))          # also odd sample counts (the default split is then uneven)
    for _ in range(100):
        # generic real data: lattice points would put several neighbours at exactly equal distances, and the
        # k-nearest-neighbour sets of LRE would then depend on rounding (a tie, not a property violation)
        X = rng.normal(size=(n, dx)) * 2.0
        if np.linalg.matrix_rank(X - X.mean(0)) == dx:
            break
    # integer-valued source now and then (counts, occupation numbers; a wide range keeps neighbour distances tie-free): the
    # transformed variant of the shift / rescaling scenarios is then ALSO handed over as an int64 array
    intsrc = kind in ("scale-source", "shift-source") and rng.random() < 0.3
    if intsrc:
        X = rng.integers(-10 ** 6, 10 ** 6, size=(n, dx)).astype(float)
    A = rng.integers(-3, 4, size=(dx, dy))
    Y = (X / np.abs(X).max() * 4.0 if intsrc else X) @ A / 2.0 + rng.normal(size=(n, dy)) if rng.random() < 0.7 else rng.normal(size=(n, dy)) * 2.0
    if np.any(Y.std(axis=0) == 0):
        Y[:, 0] += np.arange(n) % 3
    n_local = int(rng.integers(max(2, dx + 1), 13))
    est_kind = "fixed" if kind == "rotate-target" else ("default" if rng.random() < 0.6 else "fixed")
    perm = rng.permutation(n)
    explicit = rng.random() < 0.5
    # a per-column scaler is not rotation invariant: only with shifts and uniform rescalings
    user_scaler = kind in ("scale-source", "scale-target", "shift-source", "shift-target") and rng.random() < 0.4
    tr, te = (perm[:12], perm[12:]) if explicit else (None, None)
    c = {"id": cid, "kind": kind, "dx": dx, "dy": dy, "est": est_kind, "user_scaler": user_scaler, "raised": "", "X": np.round(X, 6).tolist(), "Y": np.round(Y, 6).tolist(),
         "base": {}, "trans": {}, "ntest": int(len(te)) if te is not None else 0, "plre_seq": [], "plre_par": [], "lre_self": 0, "lre_self_rot": 0, "lre_fix": 0, "lre_bigshift": 0, "lre_col": 0, "lre_colscaled": 0, "gre_lin": 0, "grd_orth": 0, "gre_train": 0, "lre_all": [], "pgre_all": []}
    try:
        with warnings.catch_warnings():
            warnings.simplefilter("ignore")
            c["base"] = measures(X, Y, n_local, est_kind, tr, te, user_scaler)
            X2, Y2 = X, Y
            ang = tuple(sc["angle"])
            if kind == "rotate-source":
                X2 = X @ rat_rot(dx, ang, rng=rng)
            elif kind == "reflect-source":
                X2 = X @ rat_rot(dx, ang, reflect=True, rng=rng)
            elif kind == "scale-source":
                X2 = X * float(rng.choice([0.25, 3.0, 16.0]))
                if user_scaler:
                    # with the per-column scaler supplied by the user the data is standardised column by column before
                    # anything else (neighbour search included), so even a per-column rescaling changes nothing
                    X2 = X * rng.choice([0.25, 3.0, 16.0, 100.0], size=dx)
            elif kind == "scale-target":
                Y2 = Y * float(rng.choice([0.25, 3.0, 16.0]))
            elif kind == "shift-source":
                X2 = X + rng.integers(-9, 10, size=dx) * float(rng.choice([1.0, 1.0, 1e3, 1e6]))      # also offsets far beyond the spread
            elif kind == "shift-target":
                Y2 = Y + rng.integers(-9, 10, size=dy)
            elif kind == "rotate-target":
                Y2 = Y @ rat_rot(dy, ang, rng=rng)
            if intsrc:
                X2 = np.rint(X * 3 if kind == "scale-source" else X + rng.integers(-9, 10, size=dx) * 1000).astype(np.int64)
            c["trans"] = measures(X2, Y2, n_local, est_kind, tr, te, user_scaler)
            # in EVERY case: LRE under an offset of the source far beyond its spread, and (with a per-column scaler, which
            # standardises before anything else) under a per-column rescaling of the source
            from skmatter.metrics import local_reconstruction_error as _lre
            from skmatter.linear_model import Ridge2FoldCV as _R2
            from skmatter.preprocessing import StandardFlexibleScaler as _SFS
            fixed = lambda: _R2(alphas=[1e-3], alpha_type="absolute", regularization_method="tikhonov", shuffle=False, n_jobs=1)
            kwx = dict(train_idx=tr, test_idx=te)
            c["lre_fix"] = q1(_lre(X, Y, n_local, estimator=fixed(), **kwx))
            c["lre_bigshift"] = q1(_lre(X + rng.integers(1, 10, size=dx) * 1e6, Y, n_local, estimator=fixed(), **kwx))
            # LRE evaluated ON the training points (every test point coincides with a training point: its squared distance is
            # zero up to rounding, of either sign) must still not depend on a rotation of the source space
            idx_self = perm[:14]
            Rself = rat_rot(dx, ang, rng=rng)
            c["lre_self"] = q1(_lre(X, Y, max(2, min(n_local, 8)), estimator=fixed(), train_idx=idx_self, test_idx=idx_self))
            c["lre_self_rot"] = q1(_lre(X @ Rself, Y, max(2, min(n_local, 8)), estimator=fixed(), train_idx=idx_self, test_idx=idx_self))
            from skmatter.metrics import pointwise_local_reconstruction_error as _plre
            c["plre_seq"] = ql(_plre(X, Y, n_local, estimator=fixed(), **kwx))
            c["plre_par"] = ql(_plre(X, Y, n_local, estimator=fixed(), n_jobs=2, **kwx))        # results in input order, whatever the scheduling
            c["lre_col"] = q1(_lre(X, Y, n_local, estimator=fixed(), scaler=_SFS(column_wise=True), **kwx))
            c["lre_colscaled"] = q1(_lre(X * rng.choice([0.25, 3.0, 16.0, 100.0], size=dx), Y, n_local, estimator=fixed(), scaler=_SFS(column_wise=True), **kwx))
            # special constructions
            Alin = rng.integers(-3, 4, size=(dx, dy)).astype(float)
            if not np.any(Alin):
                Alin[0, 0] = 1.0
            # also with strongly anisotropic columns (scales down to 1e-6): the information is still contained linearly
            if rng.random() < 0.5:
                sc = 10.0 ** -rng.integers(0, 7, size=dx)
                # the total variance must stay far above the scaler's absolute tolerance (1e-12): one column keeps its scale,
                # a single column is scaled by 1e-4 at most
                if dx >= 2:
                    sc[int(rng.integers(dx))] = 1.0
                else:
                    sc = np.maximum(sc, 1e-4)
                Xs = X * sc
                if rng.random() < 0.6:            # a map that reads only the weakest column
                    Alin = np.zeros((dx, dy)); Alin[int(np.argmin(sc)), :] = rng.integers(1, 4, size=dy)
            else:
                Xs = X
            c["gre_lin"] = q1(global_reconstruction_error(Xs, Xs @ Alin, train_idx=tr, test_idx=te))
            c["grd_orth"] = q1(global_reconstruction_distortion(X, X @ rat_rot(dx, ang, reflect=bool(rng.integers(2)), rng=rng), train_idx=tr, test_idx=te))
            idx = perm[:14]
            c["gre_train"] = q1(global_reconstruction_error(X, Y, train_idx=idx, test_idx=idx))
            c["pgre_all"] = ql(pointwise_global_reconstruction_error(X, Y, train_idx=idx, test_idx=perm[14:], estimator=Ridge(alpha=1e-3, fit_intercept=False)))
            c["lre_all"] = ql(pointwise_local_reconstruction_error(X, Y, len(idx), train_idx=idx, test_idx=perm[14:], estimator=Ridge(alpha=1e-3, fit_intercept=False)))
    except Exception as e:  # noqa
        c["raised"] = "%s: %s" % (type(e).__name__, str(e)[:120])
        z = {"gre": 0, "pgre": [], "grd": 0, "pgrd": [], "lre": 0, "plre": []}
        c["base"], c["trans"] = z, z
    return c


def gen(args):
    wid, scs, sd = args
    rng = np.random.default_rng([sd, wid, 1313])
    return [case("s%d" % k, rng, sc) for k, sc in core.timed(scs)]


KEYS = ("id", "kind", "dx", "dy", "raised", "base", "trans", "gre_lin", "grd_orth", "gre_train", "lre_all", "pgre_all", "lre_fix", "lre_bigshift", "lre_col", "lre_colscaled", "ntest", "plre_seq", "plre_par", "lre_self", "lre_self_rot")


def strip(c):
    return {k: c[k] for k in KEYS}


def run(tier):
    rep = core.Report("C13", tier)
    r = core.run_tlc("ReconEnum.tla", cfg="mc/ReconEnum.cfg", workers=1)
    rep.add_mc("ReconEnum: 5x5 dimension pairs x 7 transformations x 2 rational angles", r)
    scs = [(k, e) for k, e in enumerate(r["records"]) if e.get("k") == "E"]
    if len(scs) != 350:
        raise core.Machinery("expected 350 scenarios, got %d" % len(scs))
    if tier == "quick":
        scs = scs[core.seed() % 3::3]
    else:
        scs = [(k * 10 + j, e) for k, e in scs for j in range(4)]
    with mp.Pool(core.NCPU) as pool:
        cases = [c for part in pool.map(gen, [(w, scs[w::core.NCPU], core.seed()) for w in range(core.NCPU)]) for c in part]
    # joblib cannot start workers from inside a pool worker (n_jobs > 1 runs sequentially there): a few scenarios are also run
    # here in the main process so that the n_jobs route of the local measure really is parallel
    main_scs = [(9000 + k, e) for k, e in scs[:: max(1, len(scs) // (6 if tier == "quick" else 40))]]
    cases += gen((98, main_scs, core.seed()))
    verdicts, stats = core.validate_cases("trace/TraceRecon.tla", [strip(c) for c in cases], timeout=7200)
    rep.add_trace_stats("TraceRecon", stats, len(cases))
    core.judge(rep, cases, verdicts)
    rep.cov["scenarios_replayed_from_TLC_enumeration"] = len(cases)
    rep.cov["estimators"] = {k: sum(1 for c in cases if c["est"] == k) for k in ("default", "fixed")}
    rep.sample({k: cases[0][k] for k in ("kind", "dx", "dy", "est", "base")})
    rep.assumptions += ["relations among outputs are compared at 1 % + 24 units of 2^-14; default estimator (cross-validated cut-off) except for target rotations, where the property requires rotation-invariant model selection (fixed regularisation)"]
    return rep.finish()


def replay(path):
    return core.replay_recorded(path, "trace/TraceRecon.tla", strip)
