"""C15 — periodic and Mahalanobis distances obey the metric laws under minimum image."""
import multiprocessing as mp

import numpy as np

from harness import core


def snap(a, scale2):
    """float matrix -> integers in lattice units (value * scale2); off-lattice marker otherwise"""
    out = []
    for row in np.asarray(a, float):
        r = []
        for v in row:
            x = v * scale2
            k = round(x)
            r.append(int(k) if np.isfinite(x) and abs(x - k) <= 1e-9 * (1 + abs(x)) else -7777777)
        out.append(r)
    return out


def gen(args):
    wid, n, sd = args
    from skmatter.metrics import pairwise_mahalanobis_distances, periodic_pairwise_euclidean_distances
    from sklearn.metrics.pairwise import euclidean_distances
    rng = np.random.default_rng([sd, wid, 1515])
    out = []
    for t in core.timed(range(n)):
        dim = int(rng.integers(1, 7))
        nx, ny = int(rng.integers(1, 6)), int(rng.integers(1, 6))
        s = [1, 2, 4][int(rng.integers(3))]          # coordinates are lattice / s (dyadic, exact)
        kind = ["cell", "cell", "free", "half", "images", "aniso", "maha", "maha", "baddim", "maha-near"][int(rng.integers(10))]
        if kind == "maha-near":
            dim, nx, ny, s = int(rng.integers(1, 3)), int(rng.integers(1, 5)), int(rng.integers(1, 5)), int(rng.choice([1, 2]))
        cell = rng.integers(1, 13, size=dim)
        if kind == "aniso":
            cell = np.where(rng.random(dim) < 0.5, 1, rng.integers(20, 41, size=dim))
        far = int(rng.integers(1, 40))
        X = rng.integers(-far * 12, far * 12 + 1, size=(nx, dim))
        Y = rng.integers(-far * 12, far * 12 + 1, size=(ny, dim))
        if kind == "free":
            X = rng.integers(-12, 13, size=(nx, dim)); Y = rng.integers(-12, 13, size=(ny, dim))
            cellarg = None
        else:
            cellarg = cell / s
        if kind == "half":
            cell = 2 * rng.integers(1, 7, size=dim)
            cellarg = cell / s
            Y = X[rng.integers(0, nx, size=ny)] + (cell // 2) * rng.choice([-3, -1, 1, 3], size=(ny, dim))
        if kind == "images":
            Y = X[rng.integers(0, nx, size=ny)] + cell * rng.integers(-5, 6, size=(ny, dim))
        c = {"id": "w%d-%d" % (wid, t), "kind": kind, "dim": dim, "X": X.tolist(), "Y": Y.tolist(),
             "cell": [] if cellarg is None else [int(v) for v in cell], "sq": [], "sqT": [], "dq": [], "maha": [], "L": [],
             "raised": False, "scale": s, "lmul": []}
        Xf, Yf = X / s, Y / s
        if kind in ("cell", "aniso", "free") and (t + ny) % 4 == 0 and nx >= 2:
            # the two point sets as overlapping views of ONE buffer (consecutive frames of a trajectory): still two different sets
            B = np.ascontiguousarray(np.vstack([X, X[-1:] + 1]) / s)
            Xf, Yf = B[:-1], B[1:]
            X, Y = X, np.vstack([X[1:], X[-1:] + 1])
            c["Y"] = Y.tolist()
            ny = nx
        if cellarg is not None and (t + nx) % 3 == 0:
            cellarg = [float(v) for v in cellarg]          # the cell as a plain list of numbers
        try:
            if kind == "baddim":
                bad = np.ones(dim + int(rng.choice([-1, 1, 2])) if dim > 1 else dim + 1)
                c["cell"] = [1] * len(bad)
                if rng.random() < 0.5:
                    periodic_pairwise_euclidean_distances(Xf, Yf, cell_length=bad)
                else:
                    pairwise_mahalanobis_distances(Xf, Yf, np.eye(dim), cell_length=bad)
            elif kind == "maha-near":
                # a stack whose members agree to a few 1e-6 (relative) but are NOT equal: the same L L^T times dyadic factors
                X = rng.integers(-3, 4, size=(nx, dim)); Y = rng.integers(-3, 4, size=(ny, dim))
                c["X"], c["Y"] = X.tolist(), Y.tolist(); Xf, Yf = X / s, Y / s
                if rng.random() < 0.5:
                    cellarg, c["cell"] = None, []
                else:
                    cell = rng.integers(2, 7, size=dim); cellarg = cell / s; c["cell"] = [int(v) for v in cell]
                L = rng.integers(-2, 3, size=(dim, dim))
                ks = [int(v) for v in rng.permutation([0, 1, 3, 4])[: int(rng.integers(2, 4))]]
                prec = np.array([(L @ L.T) * (1.0 + k / 2.0 ** 17) for k in ks])
                d2 = pairwise_mahalanobis_distances(Xf, Yf, prec, cell_length=cellarg, squared=True)
                c["L"] = [L.tolist() for _ in ks]
                c["lmul"] = [2 ** 17 + k for k in ks]
                c["maha"] = [snap(m, s * s * 2 ** 17) for m in d2]
            elif kind == "maha":
                if rng.random() < 0.4:
                    cellarg, c["cell"] = None, []
                    X = rng.integers(-6, 7, size=(nx, dim)); Y = rng.integers(-6, 7, size=(ny, dim))
                    c["X"], c["Y"] = X.tolist(), Y.tolist(); Xf, Yf = X / s, Y / s
                else:
                    cell = rng.integers(1, 7, size=dim); cellarg = cell / s; c["cell"] = [int(v) for v in cell]
                ns = int(rng.integers(1, 4))
                Ls = [np.eye(dim, dtype=int) if (k == 0 and rng.random() < 0.4) else rng.integers(-2, 3, size=(dim, dim)) for k in range(ns)]
                prec = np.array([L @ L.T for L in Ls], float)
                arg = prec[0] if (ns == 1 and rng.random() < 0.5) else prec
                d2 = pairwise_mahalanobis_distances(Xf, Yf, arg, cell_length=cellarg, squared=True)
                c["L"] = [L.tolist() for L in Ls]
                c["maha"] = [snap(m, s * s) for m in d2]
                if all(np.array_equal(L, np.eye(dim)) for L in Ls[:1]):
                    c["sq"] = snap(d2[0], s * s)        # identity precision = periodic distance
            elif kind in ("cell", "free", "aniso") and rng.random() < 0.3:
                # documented defaults: Y omitted means Y = X, squared omitted means plain distances
                c["Y"] = c["X"]; Yf = Xf
                sq = periodic_pairwise_euclidean_distances(Xf, squared=True, cell_length=cellarg)
                d = periodic_pairwise_euclidean_distances(Xf, cell_length=cellarg)
                sqT = periodic_pairwise_euclidean_distances(Xf, None, squared=True, cell_length=cellarg)
                c["sq"], c["sqT"] = snap(sq, s * s), snap(sqT, s * s)
                c["dq"] = [[int(round(v * s * 1024)) for v in row] for row in d]
            elif kind == "free" and (t + nx + ny) % 3 == 0:
                # without a cell the function documents "{array-like, sparse matrix}" input (it reduces to sklearn's distance)
                import scipy.sparse as sp
                Xs_, Ys_ = sp.csr_matrix(Xf), sp.csr_matrix(Yf)
                sq = periodic_pairwise_euclidean_distances(Xs_, Ys_, squared=True)
                d = periodic_pairwise_euclidean_distances(Xs_, Ys_)
                sqT = periodic_pairwise_euclidean_distances(Ys_, Xs_, squared=True)
                c["sq"], c["sqT"] = snap(sq, s * s), snap(sqT, s * s)
                c["dq"] = [[int(round(v * s * 1024)) for v in row] for row in d]
            else:
                sq = periodic_pairwise_euclidean_distances(Xf, Yf, squared=True, cell_length=cellarg)
                d = periodic_pairwise_euclidean_distances(Xf, Yf, squared=False, cell_length=cellarg)
                sqT = periodic_pairwise_euclidean_distances(Yf, Xf, squared=True, cell_length=cellarg)
                c["sq"], c["sqT"] = snap(sq, s * s), snap(sqT, s * s)
                c["dq"] = [[int(round(v * s * 1024)) for v in row] for row in d]
                if kind == "free":
                    # second route: sklearn's Euclidean distance must agree with the free-space reference too
                    c["sq"] = snap(euclidean_distances(Xf, Yf, squared=True), s * s) if rng.random() < 0.2 else c["sq"]
        except Exception as e:  # noqa
            c["raised"] = True
            c["msg"] = "%s: %s" % (type(e).__name__, str(e)[:80])
        out.append(c)
    return out


def strip(c):
    return {k: c[k] for k in ("id", "kind", "dim", "X", "Y", "cell", "sq", "sqT", "dq", "maha", "L", "raised", "lmul")}


def run(tier):
    rep = core.Report("C15", tier)
    quick = tier == "quick"
    for cfg in (("1d2", "1d3", "1d5") if quick else ("1d2", "1d3", "1d5", "2d23")):
        r = core.model_check("PeriodicMetric.tla", "mc/PeriodicMetric_%s.cfg" % cfg, coverage=False, timeout=3600)
        rep.add_mc("PeriodicMetric[%s]: metric laws on all lattice triples" % cfg, r)
    rep.cov["exhaustive"] = True
    per = 60 if quick else 1300
    with mp.Pool(core.NCPU) as pool:
        cases = [c for part in pool.map(gen, [(w, per, core.seed()) for w in range(core.NCPU)]) for c in part]
    verdicts, stats = core.validate_cases("trace/TracePairwise.tla", [strip(c) for c in cases])
    rep.add_trace_stats("TracePairwise", stats, len(cases))
    core.judge(rep, cases, verdicts)
    kinds = {}
    pairs = 0
    for c in cases:
        kinds[c["kind"]] = kinds.get(c["kind"], 0) + 1
        pairs += len(c["X"]) * len(c["Y"])
    rep.cov["cases_by_kind"] = kinds
    rep.cov["point_pairs"] = pairs
    for c in cases[:2]:
        rep.sample(strip(c))
    rep.assumptions += ["inputs are integer lattices times a dyadic scale, so the implementation's squared outputs are exact up to one ulp and are snapped to lattice units",
                        "Mahalanobis distances of pairs exactly half a cell apart are not compared (both images are minimum images and differ under a non-diagonal precision)"]
    return rep.finish()


def replay(path):
    return core.replay_recorded(path, "trace/TracePairwise.tla", strip)
