"""C20 — prediction rigidities follow their closed form and scaling laws."""
import math
import multiprocessing as mp
import warnings

import numpy as np

from harness import core

S = 16384


def rq(v):
    """reciprocal in fixed point: round(S / v); 0 if not representable"""
    v = float(v)
    if v == float("inf") or abs(v) > 1e12:
        # 1 / (x A^+ x^T) with x in the null space of an unregularised, rank-deficient covariance: the quadratic form is zero
        # up to rounding (of either sign), the rigidity infinite - beyond every bound, its computed sign carries no information
        return 0
    if not np.isfinite(v) or v <= 0:
        return -1
    r = S / v
    return int(round(r)) if r < 2e9 else 2000000000


def lq(v):
    v = float(v)
    if v == float("inf") or abs(v) > 1e12:
        return 45000          # the infinite rigidity (see rq): one common code, whatever rounding made of it
    if not np.isfinite(v) or v <= 0:
        return -999999
    return int(round(math.log2(v) * 1024))


def rigidity_case(cid, rng, train_sizes, test_sizes, comp, alpha, with_witness=True, preset=None):
    from skmatter.metrics import componentwise_prediction_rigidity, local_prediction_rigidity
    d = int(sum(comp))
    r = 3
    train = [rng.integers(-r, r + 1, size=(k, d)) for k in train_sizes]
    if not any(np.any(t) for t in train):
        train[0][0, 0] = 1
    test = [rng.integers(-r, r + 1, size=(k, d)) for k in test_sizes]
    if preset is None and d >= 2 and rng.random() < 0.2:
        # a feature channel that never occurs in training but does in the test environments (an unseen species)
        jz = int(rng.integers(d))
        for tt in train:
            tt[:, jz] = 0
        if not any(np.any(tt) for tt in train):
            train[0][0, (jz + 1) % d] = 1
        for tt in test:
            tt[:, jz] = np.where(tt[:, jz] == 0, 1, tt[:, jz])
    if preset is not None:
        train, test = [np.array(t) for t in preset[0]], [np.array(t) for t in preset[1]]
    for t in test:
        for row in t:
            if not np.any(row):
                row[int(rng.integers(d))] = 1
    # species-blocked features now and then: an environment has content in ONE component block only, the component-wise
    # rigidities of its other blocks are then infinite (positive, beyond every bound), never zero
    blocked = preset is None and len(comp) >= 2 and rng.random() < 0.2
    if blocked:
        for tt in test:
            for row in tt:
                keep = int(rng.integers(len(comp)))
                lo = int(sum(comp[:keep]))
                vals = row[lo:lo + comp[keep]].copy()
                row[:] = 0
                row[lo:lo + comp[keep]] = vals if np.any(vals) else 1
    for c in ([] if blocked else range(len(comp))):       # every component block of every test environment non-zero (finite LCPR)
        lo = int(sum(comp[:c]))
        for t in test:
            for row in t:
                if not np.any(row[lo:lo + comp[c]]):
                    row[lo] = 1
    a = alpha[0] / alpha[1]
    tiny = alpha[1] > 2 ** 30          # a small but valid regulariser (1e-11): recorded as 0 in fixed point, flagged positive
    trf = [t.astype(float) for t in train]
    tef = [t.astype(float) for t in test]
    c = {"id": cid, "train": [t.tolist() for t in train], "test": [t.tolist() for t in test], "alpha": [0, 1] if tiny else [int(alpha[0]), int(alpha[1])], "apos": int(tiny),
         "comp": [int(v) for v in comp], "raised": False, "lpr_rq": [], "lpr_lq": [], "lcpr_rq": [], "lcpr_lq": [], "cpr_rq": [], "cpr_lq": [],
         "single_lq": [], "rescaled_lq": [], "grid_lq": [], "rank_diff": 0, "Ainv": []}
    try:
        with warnings.catch_warnings():
            warnings.simplefilter("ignore")
            if preset is not None and len(preset) > 2:
                # the call immediately before: the other training set with the same cheap fingerprints (memoisation must key on content)
                local_prediction_rigidity([np.asarray(t, float) for t in preset[2]], [t.copy() for t in tef], a)
            lpr, rd = local_prediction_rigidity([t.copy() for t in trf], [t.copy() for t in tef], a)
            cpr, lcpr, rd2 = componentwise_prediction_rigidity([t.copy() for t in trf], [t.copy() for t in tef], a, np.asarray(comp))
            single = componentwise_prediction_rigidity([t.copy() for t in trf], [t.copy() for t in tef], a, np.asarray([d]))[1]
            f = float(rng.choice([0.25, 3.0, 16.0, 1e-7, 1e-9, 1e6]))      # a common rescaling by many orders of magnitude as well
            resc = local_prediction_rigidity([t * f for t in trf], [t * f for t in tef], a)[0] if not tiny else []
            grid = [local_prediction_rigidity([t.copy() for t in trf], [t.copy() for t in tef], g)[0] for g in (a / 64, a / 4, a, a * 8, a * 512)] if a > 0 and not tiny else []
        c["lpr_rq"] = [[rq(v) for v in s_] for s_ in lpr]
        c["lpr_lq"] = [[lq(v) for v in s_] for s_ in lpr]
        c["lcpr_rq"] = [[[rq(v) for v in row] for row in s_] for s_ in lcpr]
        c["lcpr_lq"] = [[[lq(v) for v in row] for row in s_] for s_ in lcpr]
        c["cpr_rq"] = [[rq(v) for v in row] for row in cpr]
        c["cpr_lq"] = [[lq(v) for v in row] for row in cpr]
        c["single_lq"] = [[lq(row[0]) for row in s_] for s_ in single]
        c["rescaled_lq"] = [[lq(v) for v in s_] for s_ in resc]
        c["grid_lq"] = [[[lq(v) for v in s_] for s_ in g] for g in grid]
        c["rank_diff"] = int(rd)
        if rd != rd2:
            c["rank_diff"] = -99
        if with_witness and a > 0:
            X_atom = np.vstack(trf)
            s2 = np.mean(X_atom ** 2, axis=0).sum()
            M = np.vstack([t.mean(axis=0) for t in trf])
            W = np.linalg.inv(M.T @ M + a * s2 * np.eye(d))          # witness, verified by the specification
            if np.abs(W).max() < 60000:
                c["Ainv"] = np.rint(W * S).astype(int).tolist()
    except Exception as e:  # noqa
        c["raised"] = True
        c["msg"] = "%s: %s" % (type(e).__name__, str(e)[:100])
    return c


ALPHAS = [(1, 64), (1, 8), (1, 2), (1, 1), (4, 1), (32, 1), (1, 1000), (1, 1000000), (1000, 1), (0, 1), (1, 10 ** 11)]


def gen(args):
    wid, shapes, sd = args
    rng = np.random.default_rng([sd, wid, 2020])
    out = []
    for k, e in shapes:
        alpha = ALPHAS[int(rng.integers(len(ALPHAS)))]
        c0 = rigidity_case("e%d" % k, rng, e["train"], e["test"], e["comp"], alpha)
        out.append(c0)
        # right afterwards, in the same process: a training set that shares every cheap fingerprint with the previous one
        # (same environments regrouped into structures of the same sizes in another order, or one feature with reversed sign)
        if not c0["raised"] and rng.random() < 0.35:
            tr = [np.array(t) for t in c0["train"]]
            allenv = np.vstack(tr)
            sizes = [len(t) for t in tr]
            if rng.random() < 0.5 and len(set(sizes)) > 1:
                sizes2 = sizes[::-1] if sizes[::-1] != sizes else sizes[1:] + sizes[:1]
                cuts = np.cumsum(sizes2)[:-1]
                tr2 = [a for a in np.split(allenv, cuts)]
            else:
                tr2 = [a.copy() for a in tr]
                j = int(rng.integers(tr2[0].shape[1]))
                for a in tr2:
                    a[:, j] = -a[:, j]
            out.append(rigidity_case("e%d-again" % k, rng, e["train"], e["test"], e["comp"], alpha, preset=(tr2, c0["test"], c0["train"])))
    return out


KEYS = ("id", "train", "test", "alpha", "apos", "comp", "raised", "lpr_rq", "lpr_lq", "lcpr_rq", "lcpr_lq", "cpr_rq", "cpr_lq", "single_lq", "rescaled_lq", "grid_lq", "rank_diff", "Ainv")


def strip(c):
    return {k: c[k] for k in KEYS}


def run(tier):
    rep = core.Report("C20", tier)
    quick = tier == "quick"
    r = core.run_tlc("RigidityEnum.tla", cfg="mc/RigidityEnum.cfg", workers=1, heap="4g", timeout=1800)
    rep.add_mc("RigidityEnum: all shapes (2-4 training, 1-3 test structures of 1-3 environments, 7 component partitions)", r)
    shapes = [(k, e) for k, e in enumerate(r["records"]) if e.get("k") == "E"]
    if len(shapes) != 117 * 39 * 7:
        raise core.Machinery("expected %d shapes, got %d" % (117 * 39 * 7, len(shapes)))
    step = 40 if quick else 4
    shapes = shapes[core.seed() % step::step]
    with mp.Pool(core.NCPU) as pool:
        cases = [c for part in pool.map(gen, [(w, shapes[w::core.NCPU], core.seed()) for w in range(core.NCPU)]) for c in part]
    verdicts, stats = core.validate_cases("trace/TraceRigidity.tla", [strip(c) for c in cases], timeout=7200)
    rep.add_trace_stats("TraceRigidity", stats, len(cases))
    core.judge(rep, cases, verdicts)
    rep.cov["shapes_replayed_from_TLC_enumeration"] = len(cases)
    rep.cov["conclusive_closed_form_comparisons"] = sum(int(v["ctx"].get("conclusive_lpr", 0)) for v in verdicts.values())
    rep.cov["alphas"] = ["%d/%d" % a for a in ALPHAS]
    rep.sample({k: cases[0][k] for k in ("train", "test", "alpha", "comp", "lpr_rq", "rank_diff")})
    rep.assumptions += ["integer environment features; the inverse of M^T M + alpha s^2 I is a numpy witness verified by the specification (A W = I) before the closed form is evaluated with it",
                        "closed-form comparisons whose fixed-point budget exceeds 2.5 % of the value are not counted (relations between outputs are still checked through log-quantised values)"]
    return rep.finish()


def replay(path):
    return core.replay_recorded(path, "trace/TraceRigidity.tla", strip)
