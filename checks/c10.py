"""C10 — Ridge2FoldCV equals explicit two-fold cross-validated regularised least squares."""
import multiprocessing as mp
import warnings

import numpy as np

from harness import core

S = 16384


def fq(a):
    a = np.asarray(a, float)
    a = np.where(np.isfinite(a), a, 1e5)
    return np.rint(np.clip(a, -1.3e5, 1.3e5) * S).astype(int).tolist()


def eig_witness(G):
    lam, V = np.linalg.eigh(G)
    lam, V = lam[::-1], V[:, ::-1]
    return {"V": fq(V), "lam": fq(np.maximum(lam, 0))}, lam


ABS_ALPHAS = [(1, 1024), (1, 64), (1, 8), (1, 2), (2, 1), (16, 1), (100, 1)]
REL_ALPHAS = [(0, 1), (1, 64), (1, 8), (1, 4), (1, 2), (7, 8)]


def case(cid, rng, cfg):
    from sklearn.model_selection import KFold
    from skmatter.linear_model import Ridge2FoldCV
    for _ in range(50):
        n, m = int(rng.integers(6, 11)), int(rng.integers(2, 5))
        kind = ["full", "full", "rankdef", "dupcol", "wide", "zerocol", "onehot"][int(rng.integers(7))]
        if kind == "wide":
            n, m = int(rng.integers(6, 8)), 4
        Xi = rng.integers(-6, 7, size=(n, m))
        if kind == "rankdef" and m >= 3:
            Xi[:, -1] = Xi[:, 0] + Xi[:, 1]
        if kind == "dupcol":
            Xi[:, -1] = Xi[:, 0]
        if kind == "zerocol":
            Xi[:, int(rng.integers(m))] = 0                      # a feature without any content
        if kind == "onehot":
            Xi = np.zeros((n, m), dtype=int)
            Xi[np.arange(n), rng.integers(0, m, size=n)] = rng.integers(1, 7, size=n)
        p = int(rng.integers(1, 3))
        W0 = rng.integers(-2, 3, size=(m, p))
        Yi = np.clip(Xi @ W0 // 2 + rng.integers(-2, 3, size=(n, p)), -12, 12)
        X, Y = Xi / 4.0, Yi / 4.0
        # folds
        if cfg["cv"] == "none-shuffle":
            rs = int(rng.integers(100)); cvarg = None; kw = dict(shuffle=True, random_state=rs)
            f1, f2 = next(KFold(2, shuffle=True, random_state=rs).split(X))
        elif cfg["cv"] == "none-noshuffle":
            cvarg = None; kw = dict(shuffle=False)
            f1, f2 = next(KFold(2, shuffle=False).split(X))
        elif cfg["cv"] == "kfold":
            rs = int(rng.integers(100)); cvarg = KFold(2, shuffle=True, random_state=rs); kw = {}
            f1, f2 = next(KFold(2, shuffle=True, random_state=rs).split(X))
        else:
            perm = rng.permutation(n); h = int(rng.integers(3, n - 2))
            f1, f2 = np.sort(perm[:h]), np.sort(perm[h:])
            if n >= 8 and rng.random() < 0.4:
                f2 = f2[:-1]                    # an explicit split need not cover all samples: the two index sets are used as given
            cvarg = [(f1, f2)]; kw = {}
        folds = [X[f1], X[f2], X]
        ok = True
        for Xf in folds:
            ev = np.linalg.eigvalsh(Xf.T @ Xf)
            if np.any((ev > 1e-9) & (ev < 5e-3)):           # input conditioning: numerical rank unambiguous at 2^-14
                ok = False
        for f, yf in ((f1, Y[f1]), (f2, Y[f2])):
            if np.any(yf.var(axis=0) < 1e-3):                  # r2 needs a non-constant target per fold
                ok = False
        if ok:
            break
    else:
        return None
    rel = cfg["atype"] == "relative"
    grid = REL_ALPHAS if rel else ABS_ALPHAS
    sel = sorted(rng.choice(len(grid), size=min(len(grid), cfg.get("nalpha", 4)), replace=False))
    r_ = rng.random()
    if r_ < 0.3:
        sel = sel[::-1]                               # descending grid
    elif r_ < 0.55:
        sel = list(rng.permutation(sel))              # unordered grid
    elif r_ < 0.7:
        sel = sel + [sel[int(rng.integers(len(sel)))]]        # a repeated value
    alphas = [grid[int(i)] for i in sel]
    use_default_grid = (not rel) and rng.random() < 0.15
    if use_default_grid:
        alphas = [(1, 10), (1, 1), (10, 1)]           # the documented default grid (0.1, 1.0, 10.0), omitted half of the time
    scoring = {"mse": None if rng.random() < 0.5 else "neg_mean_squared_error", "rmse": "neg_root_mean_squared_error", "r2": "r2"}[cfg["scorer"]]
    c = {"id": cid, "method": cfg["method"], "scorer": cfg["scorer"], "cvkind": cfg["cv"], "njobs": cfg["njobs"], "kind": kind,
         "X": Xi.tolist(), "Y": Yi.tolist(), "f1": [int(i) + 1 for i in f1], "f2": [int(i) + 1 for i in f2], "raised": False,
         "rel": [list(a) for a in alphas] if rel else [], "aeff": [], "eig": [], "sig": [0, 0], "W": [[], []], "aux": [[], []],
         "cv": [], "best_idx": 1, "best_score": 0, "coef": [], "Xn": [], "predn": []}
    # single-precision features now and then (lattice values are exact in float32): the numerical rank must then be judged at
    # single-precision resolution, otherwise round-off directions of rank-deficient folds enter the solution
    Xfit = X.astype(np.float32) if rng.random() < 0.25 else X
    if Xfit.dtype == np.float32 and kind in ("rankdef", "dupcol"):
        # the dependent column differs by one unit in the last place here and there: the same data at single-precision
        # resolution (and far below the resolution of the specification), but no longer EXACTLY dependent
        col = Xfit[:, -1].copy()
        flip = rng.random(n) < 0.6
        col[flip] = np.nextafter(col[flip], np.float32(np.inf) * np.where(rng.random(int(flip.sum())) < 0.5, 1, -1).astype(np.float32))
        Xfit[:, -1] = col
    c["kind"] = kind + ("/float32" if Xfit.dtype == np.float32 else "")
    try:
        with warnings.catch_warnings():
            warnings.simplefilter("ignore")
            mdl = core.mk(Ridge2FoldCV, alphas=(0.1, 1.0, 10.0) if use_default_grid else [a / b for a, b in alphas], alpha_type=cfg["atype"], regularization_method=cfg["method"], cv=cvarg,
                               scoring=scoring, n_jobs=None if cfg["njobs"] == 1 else cfg.get("njobs_real", 2), **kw).fit(Xfit, Y if p > 1 else Y)
        c["cv"] = fq(mdl.cv_values_)
        c["best_idx"] = int(np.argmin(np.abs(np.asarray([a / b for a, b in alphas]) - mdl.alpha_))) + 1
        c["best_score"] = fq([mdl.best_score_])[0]
        c["coef"] = fq(np.reshape(mdl.coef_, (p, m)))
        Xn = rng.integers(-6, 7, size=(3, m))
        c["Xn"] = Xn.tolist()
        c["predn"] = fq(np.reshape(mdl.predict(Xn / 4.0), (3, -1)))
    except Exception as e:  # noqa
        c["raised"] = True
        c["msg"] = "%s: %s" % (type(e).__name__, str(e)[:120])
        return c
    # witnesses (all verified by the specification before use)
    eigs, lams = [], []
    for Xf in folds:
        w, lam = eig_witness(Xf.T @ Xf)
        eigs.append(w); lams.append(lam)
    c["eig"] = eigs
    sig = [float(np.sqrt(max(lams[0][0], 0))), float(np.sqrt(max(lams[1][0], 0)))]
    c["sig"] = fq(sig)
    aeff = [(a / b) * max(sig) if rel else a / b for a, b in alphas]
    c["aeff"] = fq(aeff)
    for fi, (Xf, yf, Xo, yo) in enumerate(((X[f1], Y[f1], X[f2], Y[f2]), (X[f2], Y[f2], X[f1], Y[f1]))):
        Ws, auxs = [], []
        U, s, Vt = np.linalg.svd(Xf, full_matrices=False)
        for ae in aeff:
            if cfg["method"] == "tikhonov":
                keep = s > 1e-9
                Wm = (Vt.T[:, keep] * (s[keep] / (s[keep] ** 2 + ae))) @ (U.T[keep] @ yf)
            else:
                keep = (s > ae) & (s > 1e-9)
                Wm = (Vt.T[:, keep] / s[keep]) @ (U.T[keep] @ yf)
            Wm = np.reshape(Wm, (m, p))
            pred = Xo @ Wm
            err = ((np.reshape(yo, (-1, p)) - pred) ** 2)
            if cfg["scorer"] == "rmse":
                aux = np.sqrt(err.mean(axis=0))
            elif cfg["scorer"] == "r2":
                yo2 = np.reshape(yo, (-1, p))
                aux = err.sum(axis=0) / ((yo2 - yo2.mean(axis=0)) ** 2).sum(axis=0)
            else:
                aux = np.zeros(p)
            Ws.append(fq(Wm)); auxs.append(fq(aux))
        c["W"][fi] = Ws
        c["aux"][fi] = auxs
    return c


def gen(args):
    wid, cfgs, sd, reps = args
    rng = np.random.default_rng([sd, wid, 1010])
    out = []
    for k, cfg in core.timed(cfgs):
        for r in range(reps):
            c = case("c%d-%d" % (k, r), rng, cfg)
            if c is not None:
                out.append(c)
    return out


KEYS = ("id", "method", "scorer", "X", "Y", "f1", "f2", "raised", "rel", "aeff", "eig", "sig", "W", "aux", "cv", "best_idx", "best_score", "coef", "Xn", "predn")


def strip(c):
    return {k: c[k] for k in KEYS}


def run(tier):
    rep = core.Report("C10", tier)
    r = core.run_tlc("RidgeConfigEnum.tla", cfg="mc/RidgeConfigEnum.cfg", workers=1)
    rep.add_mc("RidgeConfigEnum: method x alpha_type x scorer x fold kind x n_jobs", r)
    cfgs = [(k, e) for k, e in enumerate(r["records"]) if e.get("k") == "E"]
    if len(cfgs) != 96:
        raise core.Machinery("expected 96 configurations, got %d" % len(cfgs))
    reps = 2 if tier == "quick" else 16
    with mp.Pool(core.NCPU) as pool:
        cases = [c for part in pool.map(gen, [(w, cfgs[w::core.NCPU], core.seed(), reps) for w in range(core.NCPU)]) for c in part]
    # worker processes of a multiprocessing pool cannot start joblib workers (n_jobs > 1 silently runs sequentially there), so
    # the configurations with n_jobs > 1 are ALSO run here in the main process, with 2 and 3 jobs and grids of 6 - 7 alphas
    pj = [(k, e) for k, e in cfgs if e["njobs"] != 1]
    pj = pj[core.seed() % 6::6] if tier == "quick" else pj
    par = [(1000 + k, dict(e, njobs_real=2 + i % 2, nalpha=6 + (i // 2) % 2)) for i, (k, e) in enumerate(pj)]
    cases += gen((97, par, core.seed(), 1))
    verdicts, stats = core.validate_cases("trace/TraceRidgeCV.tla", [strip(c) for c in cases], timeout=7200, chunks=core.NCPU, heap="4g")
    rep.add_trace_stats("TraceRidgeCV", stats, len(cases))
    core.judge(rep, cases, verdicts)
    kinds = {}
    for c in cases:
        kinds[c["kind"]] = kinds.get(c["kind"], 0) + 1
    rep.cov["configurations_replayed_from_TLC_enumeration"] = len(cfgs)
    rep.cov["data_kinds"] = kinds
    rep.sample({k: cases[0][k] for k in ("method", "scorer", "cvkind", "X", "Y", "f1", "f2", "rel", "cv", "coef")})
    rep.assumptions += ["fold assignments are environment input (sklearn KFold / explicit iterables); fold models, eigenbases, roots and quotients are numpy witnesses verified by the specification before it predicts and scores the other fold itself",
                        "data sets whose folds have eigenvalues between 1e-9 and 5e-3 are not generated (numerical rank must be unambiguous at 2^-14)"]
    return rep.finish()


def replay(path):
    return core.replay_recorded(path, "trace/TraceRidgeCV.tla", strip)
