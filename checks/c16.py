"""C16 — QuickShift returns the basin partition of the density-ascent graph."""
import itertools
import json
import multiprocessing as mp
import warnings

import numpy as np

from harness import core


def run_qs(P, W, mode, cut, shell, cell, scale_pow, s, f32=False):
    """Run the real QuickShift on lattice points P/s (dyadic), squared cut-offs cut/s^2 given
    before scaling by `scale`=2^scale_pow.  Returns projected outputs (1-based)."""
    from skmatter.clustering import QuickShift
    import skmatter.clustering._quick_shift as qm
    from skmatter.metrics import periodic_pairwise_euclidean_distances
    X = np.asarray(P, float) / s
    if f32:
        X = X.astype(np.float32)             # dyadic lattice coordinates are exact in single precision
    kw = {}
    if cell:
        kw["metric_params"] = {"cell_length": list(np.asarray(cell, float) / s)}
    sc = 2.0 ** scale_pow
    out = {"raised": False, "labels": [], "centers": [], "centers_rows_ok": True, "gabriel": []}
    try:
        with warnings.catch_warnings():
            warnings.simplefilter("ignore")
            if mode == "cut":
                cuts = (np.asarray(cut, float) / (s * s)) / (sc * sc)
                # one common cut-off may be given as a plain number instead of an array
                carg = float(cuts[0]) if (len(set(cut)) == 1 and len(cut) % 2 == 0) else cuts.copy()
                m = core.mk(QuickShift, dist_cutoff_sq=carg, scale=sc, **kw)
            else:
                m = QuickShift(gabriel_shell=shell, **kw)
            m.fit(X, samples_weight=np.asarray(W, float))
        out["labels"] = [int(v) + 1 for v in m.labels_]
        out["centers"] = [int(v) + 1 for v in m.cluster_centers_idx_]
        out["centers_rows_ok"] = bool(np.array_equal(np.asarray(m.cluster_centers_), X[np.asarray(m.cluster_centers_idx_)]))
        if mode == "gabriel":
            try:
                d = periodic_pairwise_euclidean_distances(X, X, squared=True, cell_length=kw.get("metric_params", {}).get("cell_length"))
                np.fill_diagonal(d, np.inf)
                g = qm._get_gabriel_graph(d)
                out["gabriel"] = [[bool(v) for v in row] for row in g]
            except Exception:
                out["gabriel"] = []
    except Exception as e:  # noqa
        out["raised"] = True
        out["msg"] = "%s: %s" % (type(e).__name__, str(e)[:100])
    return out


def mk(cid, kind, P, W, mode, cut, shell, cell, res, base=None):
    c = {"id": cid, "kind": kind, "n": len(P), "P": [list(map(int, p)) for p in P], "W": [int(w) for w in W], "mode": mode,
         "cut": [int(v) for v in cut], "shell": int(shell), "cell": [int(v) for v in cell], "base": base or []}
    c.update({k: res[k] for k in ("raised", "labels", "centers", "centers_rows_ok", "gabriel")})
    if res.get("msg"):
        c["msg"] = res["msg"]
    return c


def gen(args):
    wid, n, sd, big = args
    rng = np.random.default_rng([sd, wid, 1616])
    out = []
    for t in core.timed(range(n)):
        dim = int(rng.integers(1, 5))
        N = int(rng.integers(2, 41 if big else 25))
        kind = ["uniform", "clustered", "collinear", "dups", "grid"][int(rng.integers(5))]
        r = int(rng.integers(2, 11))
        if kind == "clustered":
            c = rng.integers(-r, r + 1, size=(3, dim)) * 3
            P = c[rng.integers(0, 3, size=N)] + rng.integers(-1, 2, size=(N, dim))
        elif kind == "collinear":
            v = rng.integers(-2, 3, size=dim); v[0] = 1
            P = np.outer(rng.integers(-r, r + 1, size=N), v)
        elif kind == "dups":
            P = rng.integers(-r, r + 1, size=(max(2, N // 2), dim))
            P = P[rng.integers(0, len(P), size=N)]
        elif kind == "grid":
            P = rng.integers(0, 3, size=(N, dim))
        else:
            P = rng.integers(-r, r + 1, size=(N, dim))
        W = rng.permutation(N) + 1
        if rng.random() < 0.3:
            W = np.sort(rng.choice(np.arange(-50, 50), size=N, replace=False))[np.argsort(rng.permutation(N))]
        if rng.random() < 0.2:
            W = rng.integers(1, max(3, N // 2), size=N)          # equal weights: a point never moves to a point of EQUAL weight
        mode = "cut" if rng.random() < 0.55 else "gabriel"
        cell = []
        if rng.random() < 0.35:
            cell = list(rng.integers(2, 2 * r + 2, size=dim))
        diam = int(4 * dim * r * r) + 2
        cut = [int(rng.choice([1, 2, int(rng.integers(1, diam)), int(rng.integers(1, max(2, diam // 8))), 4 * diam])) for _ in range(N)]
        if rng.random() < 0.25:
            cut = [cut[0]] * N                      # a common cut-off for all points
        shell = int(rng.integers(1, 4))
        s = [1, 2, 4][int(rng.integers(3))]
        sp = int(rng.integers(-1, 3))
        res = run_qs(P, W, mode, cut, shell, cell, sp, s)
        cid = "w%d-%d" % (wid, t)
        out.append(mk(cid, kind, P, W, mode, cut, shell, cell, res))
        if res["raised"]:
            continue
        # metamorphic variants; `base` = labels of the original run carried through the transformation
        v = int(rng.integers(3))
        if v == 0:          # permutation of the input order
            perms = [rng.permutation(N)] if N > 7 else [np.array(p) for p in itertools.islice(itertools.permutations(range(N)), 0, 5040, max(1, (5040 if N == 7 else 720) // 12))]
            for pi, perm in enumerate(perms[:12]):
                r2 = run_qs(P[perm], W[perm], mode, [cut[i] for i in perm], shell, cell, sp, s)
                inv = np.argsort(perm)
                base = [int(inv[res["labels"][perm[a]] - 1]) + 1 for a in range(N)]
                out.append(mk("%s-perm%d" % (cid, pi), "permuted", P[perm], W[perm], mode, [cut[i] for i in perm], shell, cell, r2, base))
        elif v == 1:        # strictly increasing re-mapping of the weights
            rr = rng.random()
            W2 = W.astype(int) * 3 + 7 if rr < 0.4 else (np.sign(W) * (np.abs(W) ** 3) if rr < 0.7 else 1.0 + 1e-10 * W.astype(float))
            # (the last map is strictly increasing too: gaps of 1e-10, resolved in double precision only)
            tiny = rr >= 0.7
            r2 = run_qs(P, W2, mode, cut, shell, cell, sp, s, f32=tiny and rng.random() < 0.6)
            # the record carries integer weights in the same order (W itself for the tiny-gap map)
            out.append(mk(cid + "-rew", "reweighted", P, W if tiny else W2, mode, cut, shell, cell, r2, res["labels"]))
        elif cell:          # periodic images
            P2 = P + np.asarray(cell) * rng.integers(-3, 4, size=P.shape)
            r2 = run_qs(P2, W, mode, cut, shell, cell, sp, s)
            out.append(mk(cid + "-img", "image-shifted", P2, W, mode, cut, shell, cell, r2, res["labels"]))
    return out


def strip(c):
    return {k: c[k] for k in ("id", "kind", "n", "P", "W", "mode", "cut", "shell", "cell", "base", "raised", "labels", "centers", "centers_rows_ok", "gabriel")}


def run(tier):
    rep = core.Report("C16", tier)
    quick = tier == "quick"
    cfgs = ["cut3", "gab3s1", "gab3s1_periodic"] if quick else ["cut3", "gab3s1", "gab3s1_periodic", "cut3_periodic", "gab4s1", "gab4s2", "cut4"]
    for cfg in cfgs:
        r = core.model_check("QuickShiftAlg.tla", "mc/QuickShiftAlg_%s.cfg" % cfg, coverage=(cfg != "cut4"), timeout=4 * 3600, heap="32g")
        rep.add_mc("QuickShiftAlg[%s]: code-shaped ascent/propagation => valid labelling, all lattice inputs x weight orders x cut-offs" % cfg, r)
    # random exploration of larger instances: 7 points on a 5x5 lattice, staged generation, tlc -simulate
    simcases = []
    for cfg in ("simcut", "simgab"):
        rs = core.run_tlc("QuickShiftAlg.tla", cfg="mc/QuickShiftAlg_%s.cfg" % cfg, workers=core.NCPU, simulate="num=%d" % (250 if quick else 30000), depth=40,
                          extra=["-seed", str(core.seed() + 5)], timeout=600 if quick else 3600, budget_ok=True, heap="8g")
        if rs["error"]:
            raise core.Machinery("QuickShiftAlg simulation %s: %s\n%s" % (cfg, rs["error"], core.tlc_error_excerpt(rs, 30)))
        rep.cov["parts"]["QuickShiftAlg simulation [%s], 7 points" % cfg] = {"states_checked": rs.get("sim_states", 0), "result": "no error"}
        # spec -> code: every terminated behaviour TLC generated (tie-rich lattice inputs chosen by TLC) is run through the real
        # QuickShift.fit and validated like any other recorded fit (a different but valid tie-break is not a violation; how
        # often the code also reproduces the model's own tie-breaking is reported as coverage only)
        seen, nrep, nsame = set(), 0, 0
        for b in rs["records"]:
            if not (isinstance(b, dict) and b.get("k") == "Q"):
                continue
            key = json.dumps([b["P"], b["W"], b["cut"]])
            if key in seen or nrep >= (400 if quick else 6000):
                continue
            seen.add(key)
            nrep += 1
            mode = "cut" if b["mode"] == "cut" else "gabriel"
            res = run_qs(b["P"], b["W"], mode, b["cut"], int(b["shell"]), [], 0, 1)
            nsame += int((not res["raised"]) and res["labels"] == [int(v) for v in b["root"]])
            simcases.append(mk("sim-%s-%d" % (cfg, nrep), "tlc-behaviour", np.asarray(b["P"]), np.asarray(b["W"]), mode, b["cut"], int(b["shell"]), [], res))
        rep.cov["parts"]["QuickShiftAlg simulation [%s], 7 points" % cfg]["behaviours_replayed_in_the_code"] = nrep
        rep.cov["parts"]["QuickShiftAlg simulation [%s], 7 points" % cfg]["labels_identical_to_the_model"] = nsame
        rep.cov["states"] += rs.get("sim_states", 0)
        rep.cov["transitions"] += rs.get("sim_states", 0)
    rep.cov["exhaustive"] = True
    if not quick:
        r = core.model_check("QuickShiftAlg.tla", "mc/QuickShiftAlg_cut4_mut.cfg", coverage=False, timeout=3600, heap="16g")
        if r["error"] != "invariant-violated":
            raise core.Machinery("mutation demo (attach path to the first root) not detected by the model: %s" % r["error"])
        rep.cov["parts"]["mutation demo: attach path to first root reached"] = "TLC counterexample found (%s)" % r.get("violated")
    per = 14 if quick else 220
    with mp.Pool(core.NCPU) as pool:
        cases = [c for part in pool.map(gen, [(w, per, core.seed(), not quick) for w in range(core.NCPU)]) for c in part]
    cases = cases + simcases
    verdicts, stats = core.validate_cases("trace/TraceQuickShift.tla", [strip(c) for c in cases], timeout=7200)
    rep.add_trace_stats("TraceQuickShift", stats, len(cases))
    core.judge(rep, cases, verdicts)
    kinds = {}
    tf = 0
    for c in cases:
        k = c["mode"] + "/" + c["kind"]
        kinds[k] = kinds.get(k, 0) + 1
        tf += bool(verdicts[c["id"]]["ctx"].get("tiefree"))
    rep.cov["cases_by_mode_and_kind"] = kinds
    rep.cov["tie_free_cases"] = tf
    rep.sample({k: cases[0][k] for k in ("kind", "P", "W", "mode", "cut", "cell", "labels", "centers")})
    rep.assumptions += ["lattice points with dyadic scales; cut-offs are integers in squared lattice units (effective value after scale^2)",
                        "the Gabriel graph is read from the module-level helper on the metric's distance matrix; without it only inputs free of on-sphere points are conclusive"]
    return rep.finish()


def replay(path):
    return core.replay_recorded(path, "trace/TraceQuickShift.tla", strip)
