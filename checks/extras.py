"""Growth modules beyond the listed properties (no property id, never a VIOLATION line):
request validation / error paths of the selectors replayed from the TLC-enumerated decision table.
Result: /verif/out/extras.json and a summary on stdout; exit 0 unless the machinery fails."""
import json
import os
import warnings

import numpy as np

from harness import core


def replay_validation(cfgs):
    import skmatter.feature_selection as F
    import skmatter.sample_selection as Sm
    rng = np.random.default_rng(3)
    res = {"agree": 0, "disagree": []}
    for e in cfgs:
        N = e["n"]
        for cname, cls, axis in (("feature.FPS", F.FPS, 1), ("sample.CUR", Sm.CUR, 0), ("feature.CUR", F.CUR, 1), ("sample.FPS", Sm.FPS, 0)):
            X = rng.normal(size=(N, 7) if axis == 0 else (7, N))
            r = e["req"]
            nts = None if r[0] == "none" else ("three" if r[0] == "str" else (int(r[1]) if r[0] == "int" else r[1] / 4.0))
            try:
                obj = cls(n_to_select=nts, full=e["full"], score_threshold=1e-12 if e["thr"] else None)
                with warnings.catch_warnings():
                    warnings.simplefilter("ignore")
                    if e["fitted"]:
                        obj2 = cls(n_to_select=1).fit(X)
                        obj.__dict__.update({k: v for k, v in obj2.__dict__.items() if k.endswith("_") or k.startswith("_")})
                    obj.fit(X, warm_start=e["warm"])
                got = "accept"
                nsel = int(obj.n_selected_)
            except (ValueError, TypeError) as ex:
                got, nsel = "reject", 0
            except Exception as ex:  # noqa
                got, nsel = "error:%s" % type(ex).__name__, 0
            want = "accept" if e["accept"] else "reject"
            ok = got == want
            # a warm start continues from one selection, a resolved request of zero selections is outside the documented domain
            if ok and got == "accept" and e["resolved"] >= 1 and not e["warm"] and nsel != e["resolved"]:
                ok = False
            if ok or (e["accept"] and e["resolved"] < 1):
                res["agree"] += 1
            else:
                res["disagree"].append({"class": cname, "config": e, "got": got, "n_selected": nsel})
    return res


def replay_split(cfgs):
    from skmatter.model_selection import train_test_split
    res = {"agree": 0, "disagree": []}
    for e in cfgs:
        n = e["n"]
        X = np.arange(n * 2).reshape(n, 2)
        try:
            with warnings.catch_warnings():
                warnings.simplefilter("ignore")
                Xtr, Xte = train_test_split(X, train_size=e["tr"] / 8.0, test_size=e["te"] / 8.0, train_test_overlap=e["overlap"], random_state=1)
            got = "accept"
            tr, te = {int(r[0]) for r in Xtr}, {int(r[0]) for r in Xte}
            ok = (len(Xtr) == e["ntrain"] and len(Xte) == e["ntest"] and len(tr) == len(Xtr) and len(te) == len(Xte)
                  and tr <= set(X[:, 0].tolist()) and te <= set(X[:, 0].tolist()) and (e["overlap"] or not (tr & te)))
        except ValueError:
            got, ok = "reject", True
        want = "accept" if e["accept"] else "reject"
        if got == want and ok:
            res["agree"] += 1
        else:
            res["disagree"].append({"config": e, "got": got})
    return res


def replay_pcovr(cfgs):
    from sklearn.kernel_ridge import KernelRidge
    from sklearn.linear_model import LinearRegression, Ridge, RidgeCV
    from skmatter.decomposition import PCovR
    rng = np.random.default_rng(5)
    res = {"agree": 0, "disagree": []}
    for e in cfgs:
        X = rng.normal(size=(e["n"], e["m"])); X -= X.mean(0)
        Y = rng.normal(size=(e["n"], 2)); Y -= Y.mean(0)
        reg = {"none": None, "ridge": Ridge(alpha=0.1, fit_intercept=False), "ridgecv": RidgeCV(alphas=[0.1, 1.0], fit_intercept=False),
               "lr": LinearRegression(fit_intercept=False), "precomputed": "precomputed", "kernelridge": KernelRidge()}[e["reg"]]
        try:
            with warnings.catch_warnings():
                warnings.simplefilter("ignore")
                PCovR(mixing=0.5, n_components=e["kk"], svd_solver=e["solver"], space=e["space"], regressor=reg).fit(X, Y)
            got = "accept"
        except (ValueError, TypeError):
            got = "reject"
        except Exception as ex:  # noqa
            got = "error:" + type(ex).__name__
        want = "accept" if e["accept"] else "reject"
        if got == want:
            res["agree"] += 1
        else:
            res["disagree"].append({"config": e, "got": got})
    return res


def replay_routes(cfgs):
    """PCovR route / component-count resolution: data with a prescribed PCA spectrum, mixing = 1."""
    from skmatter.decomposition import PCovR
    rng = np.random.default_rng(11)
    res = {"agree": 0, "disagree": []}
    data = {}
    for e in cfgs:
        n, m, lam = e["n"], e["m"], e["lam"]
        key = (n, m, tuple(lam))
        if key not in data:
            r = len(lam)
            A = rng.normal(size=(n, r)); A -= A.mean(0)
            Q = np.linalg.qr(A)[0]                      # centred orthonormal columns
            V = np.linalg.qr(rng.normal(size=(m, r)))[0]
            X = (Q * np.sqrt(np.array(lam, float))) @ V.T
            Y = rng.normal(size=(n, 2)); Y -= Y.mean(0)
            data[key] = (X, Y)
        X, Y = data[key]
        kq = e["kreq"]
        ncomp = None if kq[0] == "none" else (int(kq[1]) if kq[0] == "int" else kq[1] / 8.0)
        try:
            with warnings.catch_warnings():
                warnings.simplefilter("ignore")
                o = PCovR(mixing=1.0, n_components=ncomp, svd_solver=e["solver"], space=None if e["space"] == "none" else e["space"],
                          random_state=0).fit(X, Y)
                T = o.transform(X)
            got = {"accept": True, "rsolver": o.fit_svd_solver_, "rspace": o.space_, "kres": int(o.n_components_), "tcols": int(T.shape[1])}
        except (ValueError, TypeError):
            got = {"accept": False}
        except Exception as ex:  # noqa
            got = {"accept": "error:" + type(ex).__name__}
        ok = got["accept"] == e["accept"] and (not e["accept"] or (got["rsolver"] == e["rsolver"] and got["rspace"] == e["rspace"]
                                                                  and got["kres"] == e["kres"] and got["tcols"] == e["kres"]))
        if ok:
            res["agree"] += 1
        else:
            res["disagree"].append({"config": e, "got": got})
    return res


def replay_handshake(cfgs):
    """check_lr_fit / check_krr_fit through PCovR.fit / KernelPCovR.fit: outcome class, no aliasing, no mutation of the user's object."""
    import copy
    from sklearn.kernel_ridge import KernelRidge
    from sklearn.linear_model import LinearRegression, Ridge
    from skmatter.decomposition import KernelPCovR, PCovR
    rng = np.random.default_rng(17)
    res = {"agree": 0, "disagree": []}
    n = 7
    for e in cfgs:
        def mk():
            return {"lr": LinearRegression(fit_intercept=False), "ridge": Ridge(alpha=0.3, fit_intercept=False),
                    "krr": KernelRidge(alpha=0.3, kernel="linear")}[e["kind"]]
        X = rng.normal(size=(n, e["m"])); X -= X.mean(0)
        Y = rng.normal(size=(n, e["p"])); Y -= Y.mean(0)
        if e["ynd"] == 1:
            Y = Y[:, 0]
        user = mk()
        if e["fitted"]:
            Xf = rng.normal(size=(n, e["mfit"])); Xf -= Xf.mean(0)
            Yf = rng.normal(size=(n, e["pfit"])); Yf -= Yf.mean(0)
            user.fit(Xf, Yf[:, 0] if e["yndfit"] == 1 else Yf)
        attr = "dual_coef_" if e["kind"] == "krr" else "coef_"
        before = copy.deepcopy(user.__dict__)
        try:
            with warnings.catch_warnings():
                warnings.simplefilter("ignore")
                if e["kind"] == "krr":
                    o = KernelPCovR(mixing=0.5, n_components=2, regressor=user, kernel="linear").fit(X, Y)
                else:
                    o = PCovR(mixing=0.5, n_components=2, regressor=user).fit(X, Y)
            used = o.regressor_
            if used is user:
                got = "aliased"
            elif not e["fitted"]:
                got = "fit-clone" if (hasattr(used, attr) and not hasattr(user, attr)) else "user-object-fitted"
            else:
                got = "reuse-copy" if np.array_equal(getattr(used, attr), before[attr]) else "refitted"
        except (ValueError, TypeError):
            got = "reject"
        except Exception as ex:  # noqa
            got = "error:" + type(ex).__name__
        after = user.__dict__
        same = set(before) == set(after) and all((np.array_equal(before[k], after[k]) if isinstance(before[k], np.ndarray) else before[k] == after[k])
                                                 for k in before if not callable(before[k]))
        if got == e["outcome"] and same:
            res["agree"] += 1
        else:
            res["disagree"].append({"config": e, "got": got, "user_object_unchanged": bool(same)})
    return res


def record_localization(nfits, seed):
    """Run real SparseKDE fits (fpoints mode) with the localisation search wrapped; one record per grid point."""
    import skmatter.neighbors._sparsekde as M
    from checks import c17
    rng = np.random.default_rng([seed, 1717])
    recs = []
    state = {"cur": None}
    orig_lp = M._local_population
    orig_tune = M.SparseKDE._tune_localization_factor_based_on_fraction_of_points

    def lp(cell, gj, gi, w, s2):
        out = orig_lp(cell, gj, gi, w, s2)
        if state["cur"] is not None:
            state["cur"]["q"].append((float(s2), float(out[1])))
        return out

    def tune_(self, X, sw, sigma2, flocal, idx, delta, tune):
        cur = {"q": [(float(sigma2[idx]), float(flocal[idx]))], "tune": float(tune), "w0": float(sw[idx]), "fpoints": float(self.fpoints),
               "nsamples": int(self.nsamples), "delta": float(delta)}
        state["cur"] = cur
        try:
            return orig_tune(self, X, sw, sigma2, flocal, idx, delta, tune)
        finally:
            state["cur"] = None
            recs.append(cur)

    M._local_population = lp
    M.SparseKDE._tune_localization_factor_based_on_fraction_of_points = tune_
    fits = 0
    try:
        t = 0
        while fits < nfits and t < nfits * 4:
            t += 1
            c = c17.case("loc%d" % t, rng)       # the generator of C17 (fits inside); only fpoints-mode fits produce records
            if c is not None and c.get("fspread", -1) < 0:
                fits += 1
    finally:
        M._local_population = orig_lp
        M.SparseKDE._tune_localization_factor_based_on_fraction_of_points = orig_tune
    P, U = 2 ** 29, 2 ** 20
    cases = []
    for i, r in enumerate(recs):
        ratios = [q[0] / r["tune"] * U for q in r["q"]]
        deep = len(r["q"]) > 60 or any(abs(x - round(x)) > 1e-3 for x in ratios)
        cases.append({"id": "L%d" % i, "s": [int(round(x)) for x in ratios], "f": [int(round(q[1] * P)) for q in r["q"]], "w0": int(round(r["w0"] * P)),
                      "fpoints": int(round(r["fpoints"] * P)), "nsamples": r["nsamples"], "deep": bool(deep)})
    return cases, fits


def replay_shrink(cfgs):
    """skmatter.utils.oas against the exact rational table; effdim where the specification decides it."""
    from skmatter.utils import effdim, oas
    res = {"agree": 0, "disagree": []}
    for e in cfgs:
        cov = np.array(e["cov"], float)
        D = len(cov)
        n = e["n"][0] / e["n"][1]
        want = np.array(e["num"], float) / e["den"]
        bad = None
        try:
            with warnings.catch_warnings():
                warnings.simplefilter("ignore")
                before = cov.copy()
                got = oas(cov, n, D)
                if not np.array_equal(before, cov):
                    bad = "input-modified"
                elif got.shape != want.shape or not np.allclose(got, want, rtol=1e-10, atol=1e-12):
                    bad = "output-differs-from-exact-table"
                if bad is None and e["tr"] > 0:
                    ed = float(effdim(cov))
                    if not (1 - 1e-9 <= ed <= D + 1e-9):
                        bad = "effdim-out-of-bounds"
                    elif e["effdim"] and abs(ed - e["effdim"]) > 1e-6:
                        bad = "effdim-differs"
        except Exception as ex:  # noqa
            bad = "raised:" + type(ex).__name__
        if bad is None:
            res["agree"] += 1
        else:
            res["disagree"].append({"config": {k: e[k] for k in ("cov", "n", "phi")}, "got": bad})
    return res


def protocol_catalogue():
    """Estimators x use methods for the Protocol module: (name, make, fit(obj, d), {use: (call(obj, d), cols(dfit) or None)})."""
    from sklearn.metrics.pairwise import rbf_kernel
    import skmatter.feature_selection as F
    from skmatter.decomposition import KernelPCovR, PCovR
    from skmatter.linear_model import OrthogonalRegression, Ridge2FoldCV
    from skmatter.preprocessing import KernelNormalizer, SparseKernelCenterer, StandardFlexibleScaler
    from skmatter.sample_selection import DirectionalConvexHull
    rng = np.random.default_rng(23)
    dims = {"A": (9, 4, 2), "B": (7, 3, 1)}
    tr, us = {}, {}
    for d, (n, m, p) in dims.items():
        X = rng.normal(size=(n, m)); X -= X.mean(0)
        Y = rng.normal(size=(n, p)); Y -= Y.mean(0)
        tr[d] = (X, Y)
        us[d] = (rng.normal(size=(5, m)), rng.normal(size=(5, p)))
    act = {d: tr[d][0][: dims[d][1] - 1] for d in dims}          # active sets for the sparse centerer

    def k(a, b):
        return rbf_kernel(a, b, gamma=0.3)
    cat = []
    cat.append(("PCovR", lambda: PCovR(mixing=0.5, n_components=2), lambda o, d: o.fit(*tr[d]),
                {"transform": (lambda o, d: o.transform(us[d][0]), lambda df: 2), "predict": (lambda o, d: o.predict(us[d][0]), None),
                 "score": (lambda o, d: np.atleast_2d(o.score(*us[d])).repeat(5, 0), None)}))
    cat.append(("KernelPCovR", lambda: KernelPCovR(mixing=0.5, n_components=2, kernel="rbf", gamma=0.3), lambda o, d: o.fit(*tr[d]),
                {"transform": (lambda o, d: o.transform(us[d][0]), lambda df: 2), "predict": (lambda o, d: o.predict(us[d][0]), None),
                 "score": (lambda o, d: np.atleast_2d(o.score(*us[d])).repeat(5, 0), None)}))
    cat.append(("StandardFlexibleScaler", lambda: StandardFlexibleScaler(column_wise=True), lambda o, d: o.fit(tr[d][0]),
                {"transform": (lambda o, d: o.transform(us[d][0]), lambda df: dims[df][1]),
                 "inverse_transform": (lambda o, d: o.inverse_transform(us[d][0]), lambda df: dims[df][1])}))
    cat.append(("KernelNormalizer", lambda: KernelNormalizer(), lambda o, d: o.fit(k(tr[d][0], tr[d][0])),
                {"transform": (lambda o, d: o.transform(k(rng.normal(size=(5, dims[d][1])), tr[d][0])), lambda df: dims[df][0])}))
    cat.append(("SparseKernelCenterer", lambda: SparseKernelCenterer(), lambda o, d: o.fit(k(tr[d][0], act[d]), k(act[d], act[d])),
                {"transform": (lambda o, d: o.transform(k(rng.normal(size=(5, dims[d][1])), act[d])), lambda df: dims[df][1] - 1)}))
    for nm, cls, needy in (("feature.FPS", F.FPS, False), ("feature.CUR", F.CUR, False), ("feature.PCovFPS", F.PCovFPS, True), ("feature.PCovCUR", F.PCovCUR, True)):
        cat.append((nm, (lambda cls=cls: cls(n_to_select=2)), (lambda o, d, needy=needy: o.fit(tr[d][0], tr[d][1][:, 0]) if needy else o.fit(tr[d][0])),
                    {"transform": (lambda o, d: o.transform(us[d][0]), lambda df: 2)}))
    cat.append(("OrthogonalRegression", lambda: OrthogonalRegression(), lambda o, d: o.fit(tr[d][0], tr[d][0][:, ::-1] * 0.5),
                {"predict": (lambda o, d: o.predict(us[d][0]), None)}))
    cat.append(("Ridge2FoldCV", lambda: Ridge2FoldCV(alphas=[0.1, 1.0]), lambda o, d: o.fit(*tr[d]),
                {"predict": (lambda o, d: np.reshape(o.predict(us[d][0]), (5, -1)), None)}))
    cat.append(("DirectionalConvexHull", lambda: DirectionalConvexHull(low_dim_idx=[0]), lambda o, d: o.fit(tr[d][0], tr[d][1][:, 0]),
                {"score_samples": (lambda o, d: np.reshape(o.score_samples(us[d][0], us[d][1][:, 0]), (5, -1)), lambda df: 1),
                 "score_feature_matrix": (lambda o, d: o.score_feature_matrix(us[d][0]), lambda df: dims[df][1] - 1)}))
    return cat


def replay_protocol(hists):
    res = {"agree": 0, "disagree": [], "by_class": {}}
    for name, make, fit, uses in protocol_catalogue():
        for uname, (call, cols) in uses.items():
            for hh in hists:
                obj = make()
                fitted = None
                ok = True
                trace = []
                for step in hh["hist"]:
                    try:
                        with warnings.catch_warnings():
                            warnings.simplefilter("ignore")
                            if step["op"] == "fit":
                                fit(obj, step["d"])
                                fitted = step["d"]
                                got = "ok"
                            elif step["op"] == "clone":
                                from sklearn.base import clone
                                obj = clone(obj)
                                fitted = None
                                got = "ok"
                            elif step["op"] == "reload":
                                import pickle
                                obj = pickle.loads(pickle.dumps(obj))
                                got = "ok"
                            else:
                                o = np.asarray(call(obj, step["d"]))
                                got = "ok"
                                if o.shape[0] != 5 or (cols is not None and fitted is not None and (o.ndim != 2 or o.shape[1] != cols(fitted))):
                                    got = "wrong-shape%s" % (o.shape,)
                    except (ValueError, TypeError, AttributeError, IndexError, KeyError) as ex:
                        got = "rejected"
                    except Exception as ex:  # noqa
                        got = "error:" + type(ex).__name__
                    trace.append(got)
                    if got != step["out"]:
                        ok = False
                key = "%s.%s" % (name, uname)
                a, b = res["by_class"].get(key, (0, 0))
                res["by_class"][key] = (a + int(ok), b + int(not ok))
                if ok:
                    res["agree"] += 1
                else:
                    res["disagree"].append({"class": key, "history": [(s["op"], s["d"], s["out"]) for s in hh["hist"]], "got": trace})
    return res


def replay_localenv(cfgs):
    """LocalEnv: the rows the local model of LRE is fitted on, for every configuration TLC enumerated."""
    from skmatter.metrics import pointwise_local_reconstruction_error as plre

    class Rec:
        def __init__(self):
            self.fits = []

        def fit(self, X, Y):
            self.fits.append(np.asarray(Y, float).copy())
            self.p = Y.shape[1]
            return self

        def predict(self, X):
            return np.zeros((len(X), self.p))
    rng = np.random.default_rng(31)
    res = {"agree": 0, "disagree": []}
    for e in cfgs:
        tr, q, k = [int(v) for v in e["tr"]], int(e["q"]), int(e["nloc"])
        nt = len(tr)
        valid = {tuple(i for i in range(nt) if m[i]) for m in e["valid"]}
        for ntest in (1, k + 1):                       # fewer and more test points than neighbours
            perm = rng.permutation(nt)                   # training rows in arbitrary order
            X = np.array([tr[i] for i in perm] + [q] * ntest, float).reshape(-1, 1)
            Y = np.vstack([np.eye(nt)[perm], np.zeros((ntest, nt))])       # the target of a training row names the row
            rec = Rec()
            got = None
            try:
                with warnings.catch_warnings():
                    warnings.simplefilter("ignore")
                    plre(X, Y, k, train_idx=np.arange(nt), test_idx=np.arange(nt, nt + ntest), estimator=rec)
                envs = []
                for Yl in rec.fits:
                    envs.append(tuple(sorted(int(np.argmax(row)) for row in Yl)))
                got = envs
                ok = len(envs) == ntest and all(len(set(s)) == k and s in valid for s in envs)
            except Exception as ex:  # noqa
                got, ok = "%s: %s" % (type(ex).__name__, str(ex)[:80]), False
            if ok:
                res["agree"] += 1
            else:
                res["disagree"].append({"tr": tr, "q": q, "n_local": k, "n_test": ntest, "valid": sorted(valid), "got": got})
    return res


def replay_protocol_cap(hists):
    """ProtocolCap: every history TLC enumerated, on KernelPCovR (fit_inverse_transform = the capability requested at a fit)."""
    from skmatter.decomposition import KernelPCovR
    rng = np.random.default_rng(29)
    dims = {"A": (9, 4), "B": (7, 3)}
    tr = {}
    for d, (n, m) in dims.items():
        X = rng.normal(size=(n, m)); X -= X.mean(0)
        Y = rng.normal(size=(n, 2)); Y -= Y.mean(0)
        tr[d] = (X, Y)
    res = {"agree": 0, "disagree": []}
    for hh in hists:
        obj = KernelPCovR(mixing=0.5, n_components=2, kernel="linear")
        fitted, trace, ok = None, [], True
        for step in hh["hist"]:
            got = "ok"
            try:
                with warnings.catch_warnings():
                    warnings.simplefilter("ignore")
                    if step["op"] == "fit":
                        obj.set_params(fit_inverse_transform=bool(step["c"]))
                        obj.fit(*tr[step["d"]])
                        fitted = step["d"]
                    elif step["op"] == "clone":
                        from sklearn.base import clone
                        obj = clone(obj)
                        fitted = None
                    elif step["op"] == "reload":
                        import pickle
                        obj = pickle.loads(pickle.dumps(obj))
                    else:
                        Xb = np.asarray(obj.inverse_transform(rng.normal(size=(5, 2))))
                        # a reconstruction must live in the feature space of the data the estimator is fitted on NOW, and be the
                        # one of THIS fit: T P_TX with the training data of the current fit
                        T = obj.transform(tr[fitted][0])
                        ref = T @ (np.linalg.pinv(T) @ tr[fitted][0])
                        if Xb.shape != (5, dims[fitted][1]):
                            got = "wrong-shape%s" % (Xb.shape,)
                        elif not np.allclose(obj.inverse_transform(T), ref, atol=1e-8):
                            got = "reconstruction-of-other-data"
            except (ValueError, TypeError, AttributeError, IndexError, KeyError) as ex:
                got = "rejected"
            except Exception as ex:  # noqa
                got = "error:" + type(ex).__name__
            trace.append(got)
            if got != step["out"]:
                ok = False
        if ok:
            res["agree"] += 1
        else:
            res["disagree"].append({"history": [(s["op"], s["d"], s["c"], s["out"]) for s in hh["hist"]], "got": trace})
    return res


def run(tier):
    r = core.run_tlc("Validation.tla", cfg="mc/Validation.cfg", workers=1)
    if r["error"]:
        raise core.Machinery("Validation model: " + r["error"])
    cfgs = [e for e in r["records"] if e.get("k") == "E"]
    out = {"validation_decision_table": {"configurations": len(cfgs)}}
    res = replay_validation(cfgs)
    out["validation_decision_table"].update({"replays_agreeing": res["agree"], "replays_disagreeing": len(res["disagree"]),
                                             "disagreements": res["disagree"][:20]})
    for name, module, fn in (("train_test_split_overlap", "SplitRef", replay_split), ("pcovr_parameter_validation", "PCovRValidation", replay_pcovr),
                             ("pcovr_route_resolution", "PCovRRoutes", replay_routes),
                             ("regressor_handshake", "RegressorHandshake", replay_handshake),
                             ("oas_shrinkage_and_effdim", "ShrinkRef", replay_shrink)):
        r2 = core.run_tlc(module + ".tla", cfg="mc/%s.cfg" % module, workers=1)
        if r2["error"]:
            raise core.Machinery(module + " model: " + r2["error"])
        c2 = [e for e in r2["records"] if e.get("k") == "E"]
        rr = fn(c2)
        out[name] = {"configurations": len(c2), "replays_agreeing": rr["agree"], "replays_disagreeing": len(rr["disagree"]), "disagreements": rr["disagree"][:20]}
        print("extras: %s %d configurations: %d agree, %d disagree" % (name, len(c2), rr["agree"], len(rr["disagree"])))
        for d in rr["disagree"][:6]:
            print("  DISAGREE", d)
    rp = core.run_tlc("Protocol.tla", cfg="mc/Protocol.cfg", workers=1)
    if rp["error"]:
        raise core.Machinery("Protocol model: " + rp["error"])
    hists = [e for e in rp["records"] if e.get("k") == "H"]
    pr = replay_protocol(hists)
    out["fit_use_protocol"] = {"histories": len(hists), "replays_agreeing": pr["agree"], "replays_disagreeing": len(pr["disagree"]),
                               "by_class_method": {k_: {"agree": v[0], "disagree": v[1]} for k_, v in pr["by_class"].items()}, "disagreements": pr["disagree"][:20]}
    print("extras: fit/use protocol: %d histories x %d class.methods: %d agree, %d disagree" % (len(hists), len(pr["by_class"]), pr["agree"], len(pr["disagree"])))
    for k_, v in pr["by_class"].items():
        if v[1]:
            first = [d for d in pr["disagree"] if d["class"] == k_][:1]
            print("  DISAGREE %s: %d histories%s" % (k_, v[1], (" e.g. %s -> %s" % (first[0]["history"], first[0]["got"])) if first else ""))
    rl = core.run_tlc("LocalEnv.tla", cfg="mc/LocalEnv.cfg", workers=1)
    if rl["error"]:
        raise core.Machinery("LocalEnv model: " + str(rl["error"]))
    le = [e for e in rl["records"] if e.get("k") == "E"]
    lr = replay_localenv(le)
    out["lre_neighbourhood"] = {"configurations": len(le), "replays_agreeing": lr["agree"], "replays_disagreeing": len(lr["disagree"]), "disagreements": lr["disagree"][:10]}
    print("extras: LRE neighbourhood (n_local nearest training points, 1 and n_local + 1 test points): %d configurations: %d agree, %d disagree"
          % (len(le), lr["agree"], len(lr["disagree"])))
    for d_ in lr["disagree"][:3]:
        print("  DISAGREE", d_)
    rc_ = core.run_tlc("ProtocolCap.tla", cfg="mc/ProtocolCap.cfg", workers=1)
    if rc_["error"]:
        raise core.Machinery("ProtocolCap model: " + str(rc_["error"]))
    hc = [e for e in rc_["records"] if e.get("k") == "H"]
    rcp = core.run_tlc("ProtocolCap.tla", cfg="mc/ProtocolCap_pinned.cfg", workers=1)
    pc = replay_protocol_cap(hc)
    out["optional_capability_protocol"] = {"histories": len(hc), "replays_agreeing": pc["agree"], "replays_disagreeing": len(pc["disagree"]),
                                           "disagreements": pc["disagree"][:10],
                                           "pinned_behaviour_in_the_model": "violates %s" % (rcp.get("violated") or rcp.get("error"))}
    print("extras: optional capability (KernelPCovR.inverse_transform): %d histories: %d agree, %d disagree; model of the pinned behaviour: %s"
          % (len(hc), pc["agree"], len(pc["disagree"]), out["optional_capability_protocol"]["pinned_behaviour_in_the_model"]))
    for d_ in pc["disagree"][:3]:
        print("  DISAGREE", d_["history"], "->", d_["got"])
    loc = {}
    for name, expect in (("gentle", None), ("steep", "NoExhaustion")) + ((("gentle_big", None),) if tier == "thorough" else ()):
        r3 = core.run_tlc("Localization.tla", cfg="mc/Localization_%s.cfg" % name, workers=core.NCPU, timeout=3600)
        viol = r3.get("violated") or ""
        ok3 = (expect is None and not r3["error"]) or (expect is not None and expect in (viol + " " + str(r3["error"])))
        loc[name] = {"distinct_states": r3["distinct"], "expected": expect or "no violation", "as_expected": bool(ok3), "error": r3["error"]}
        print("extras: Localization model %s: %d distinct states, %s" % (name, r3["distinct"], "as expected" if ok3 else "UNEXPECTED: %s" % r3["error"]))
    out["sparsekde_localisation_model"] = loc
    cases, fits = record_localization(40 if tier == "quick" else 400, core.seed())
    verdicts, stats = core.validate_cases("trace/TraceLocalization.tla", cases, chunks=core.NCPU)
    tally = {}
    for v in verdicts.values():
        kk = v["v"][0] if v["v"][0] != "rejected" else "rejected:" + v["v"][1]
        tally[kk] = tally.get(kk, 0) + 1
    out["sparsekde_localisation_search"] = {"fits": fits, "searches_recorded": len(cases), "verdicts": tally,
                                            "halvings_max": max([v["ctx"]["halvings"] for v in verdicts.values()] or [0])}
    print("extras: sparsekde localisation search: %d fits, %d searches recorded, verdicts %s" % (fits, len(cases), tally))
    os.makedirs(core.OUT, exist_ok=True)
    json.dump(out, open(os.path.join(core.OUT, "extras.json"), "w"), indent=1)
    print("extras: validation table %d configurations x 4 classes: %d agree, %d disagree (reported in out/extras.json, not an alarm)"
          % (len(cfgs), res["agree"], len(res["disagree"])))
    for d in res["disagree"][:8]:
        print("  DISAGREE", d["class"], d["config"]["req"], "full", d["config"]["full"], "thr", d["config"]["thr"], "warm", d["config"]["warm"],
              "fitted", d["config"]["fitted"], "->", d["got"], "expected", "accept" if d["config"]["accept"] else "reject")
    return 0
