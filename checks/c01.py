"""C01 — every selector returns a consistent set of distinct, valid indices."""
import json
import multiprocessing as mp
import os
import sys

import numpy as np

from harness import core


def gen_traces(args):
    wid, n, sd = args
    from harness import selectors as H
    rng = np.random.default_rng([sd, wid, 101])
    names = list(H.CLASSES)
    out = []
    for t in core.timed(range(n)):
        name = names[(t + wid) % len(names)]
        cls, axis, family, needs_y = H.CLASSES[name]
        kind = H.KINDS[int(rng.integers(len(H.KINDS)))]
        n_s, m_s = int(rng.integers(3, 9)), int(rng.integers(3, 9))
        # many items and a fraction whose product with the item count is a hair below an integer in double precision
        # (50 x 0.58 = 28.999999999999996, 55 x 3/11, 75 x 11/15): the size implied by the fraction is the floor of the exact value
        hair = None
        if rng.random() < 0.05:
            Nh, hair = [(50, 0.58), (55, 3 / 11), (55, 6 / 11), (75, 11 / 15)][int(rng.integers(4))]
            n_s, m_s = (3, Nh) if axis == 1 else (Nh, 3)
        X = H.lattice(rng, n_s, m_s, int(rng.integers(2, 7)), kind)
        N = X.shape[axis]
        with_y = needs_y or rng.random() < 0.4
        # the selectors document y of shape (n_samples,); two-column targets are rejected by input validation
        y = rng.integers(-4, 5, size=(n_s, 1)) if with_y else None
        if y is not None and rng.random() < 0.7:
            y = y[:, 0]
        kw = {}
        exact, unit, tol = False, 1000000, 2
        init = []
        if family == "fps":
            r = rng.random()
            if name in ("fFPS", "sFPS") and r < 0.3:
                k0 = int(rng.integers(1, min(3, N) + 1))
                init = [int(i) for i in rng.choice(N, size=k0, replace=False)]
                kw["initialize"] = init if rng.random() < 0.5 else np.array(init)
            elif r < 0.5:
                kw["initialize"] = "random"
                kw["random_state"] = int(rng.integers(0, 100)) if rng.random() < 0.7 else 0     # 0 = documented default
                init = [int(np.random.RandomState(kw["random_state"]).randint(N))]
            else:
                i0 = int(rng.integers(N))
                kw["initialize"] = i0
                init = [i0]
            if name in ("fFPS", "sFPS", "VoronoiFPS"):
                exact, unit, tol = True, 2, 0
            elif name == "sPCovFPS":
                a = int(rng.integers(0, 8))
                kw["mixing"] = a / 8
                exact, unit, tol = True, 16, 0
            else:
                kw["mixing"] = int(rng.integers(0, 8)) / 8
                exact, unit, tol = False, 10000, 2
            if name == "VoronoiFPS":
                ff = [None, 0.01, 0.3, 1.0][int(rng.integers(4))]
                kw["full_fraction"] = ff
        else:
            kw["recompute_every"] = int(rng.choice([1, 1, 0, 2, 3]))
            kw["k"] = int(rng.integers(1, 3))
            if "PCov" in name:
                kw["mixing"] = int(rng.integers(0, 9)) / 8
        # threshold
        thr, thr_type = None, "absolute"
        r = rng.random() if hair is None else 1.0
        if r < 0.25:
            thr_type = "absolute"
            if exact:
                thr = (2 * int(rng.integers(0, 40)) + 1, 2)          # half-integers: never on a lattice value
                if name == "sPCovFPS":
                    thr = (2 * int(rng.integers(0, 40)) + 1, 16)
            elif family == "cur":
                thr = (int(rng.integers(1, 60)), 100)
            else:
                thr = (int(rng.integers(1, 400)), 10)
        elif r < 0.4:
            thr_type = "relative"
            thr = (int(rng.integers(1, 8)), 8)
        if thr is None and rng.random() < 0.25:
            kw["full"] = True                    # documented switch (not combinable with a threshold): selections continue when the data is exhausted
        if rng.random() < 0.15:
            kw["progress_bar"] = True            # the reporting wrapper around the selection loop (TQDM_DISABLE=1 silences it)
        kw = core.reduce_kwargs(cls, kw)      # documented defaults are left out about half of the time
        try:
            obj = cls(**kw)
        except Exception:
            continue
        # scaled lattices for the exact families (the code sees X*scale: genuine rounding); absolute thresholds are
        # given in raw score units, so they are only combined with the unscaled lattice
        scale = 1.0
        if exact and (thr is None or thr_type == "relative"):
            scale = [1.0, 1.0, 1e-5, 3.7e-3, 0.25, 1e3][int(rng.integers(6))]
        # single-precision input now and then (small integers are exact in float32, so nothing changes for a correct selector)
        xdt = np.float32 if (exact and scale == 1.0 and rng.random() < 0.2) else float
        rec = H.Recorder(obj, name, (X.astype(float) * scale).astype(xdt), None if y is None else y.astype(float) * scale, unit / (scale * scale), exact)
        # chain of fits
        def pick(lo):
            if hair is not None:
                return hair
            f = int(rng.integers(3))
            if f == 0 and N // 2 >= max(lo, 1):
                return None
            if f == 1:
                cands = [p / 8 for p in range(1, 9) if int(N * p / 8) >= max(lo, 1)]
                if cands:
                    return cands[int(rng.integers(len(cands)))]
            return int(rng.integers(max(lo, 1), N + 1))
        if rng.random() < 0.05:
            rec.fit(pick(1), warm=True, thr=thr, thr_type=thr_type, with_y=with_y, init=[])
        nts = pick(len(init))
        ok = rec.fit(nts, warm=False, thr=thr, thr_type=thr_type, with_y=with_y, init=init)
        nfits = int(rng.integers(0, 3))
        for _ in range(nfits):
            if not ok:
                break
            cur = int(obj.n_selected_)
            if rng.random() < 0.75 and cur >= 1:
                if cur > N:
                    break
                nts2 = pick(cur)
                ok = rec.fit(nts2, warm=True, thr=thr, thr_type=thr_type, with_y=with_y, init=[])
            else:
                ok = rec.fit(pick(len(init)), warm=False, thr=thr, thr_type=thr_type, with_y=with_y, init=init)
        out.append({"id": "w%d-%d" % (wid, t), "n": int(N), "family": family, "cls": name, "tol": tol, "unit": unit, "scale": scale, "f32": bool(xdt is np.float32),
                    "kind": kind, "params": {k: (v.tolist() if isinstance(v, np.ndarray) else v) for k, v in kw.items()},
                    "X": X.tolist(), "y": None if y is None else np.asarray(y).tolist(),
                    "layer": rec.layer, "events": rec.events})
    return out


def strip(tr):
    return {k: tr[k] for k in ("id", "n", "family", "tol", "events")}


def run(tier):
    rep = core.Report("C01", tier)
    # (A) exhaustive model checking of the reference design and of the implementation-shaped model
    for fam in ("fps", "cur"):
        r = core.model_check("GreedySelector.tla", "mc/GreedySelector_%s.cfg" % fam, timeout=1200)
        rep.add_mc("GreedySelector[%s] N=4 scores 0..2, <=3 fits, all requests x thresholds" % fam, r)
    impl_cfgs = ["fps", "cur1", "cur0"] 
    for fam in impl_cfgs:
        r = core.model_check("GreedySelectorImpl.tla", "mc/GreedySelectorImpl_%s.cfg" % fam, timeout=1200)
        rep.add_mc("GreedySelectorImpl[%s] current tree" % fam, r)
    for fam in impl_cfgs:      # larger instances (6 items) by random exploration
        rs = core.run_tlc("GreedySelectorImpl.tla", cfg="mc/GreedySelectorImpl_%s_sim.cfg" % fam, workers=core.NCPU,
                          simulate="num=%d" % (60 if tier == "quick" else 3000), depth=30, extra=["-seed", str(core.seed() + 3)],
                          timeout=600 if tier == "quick" else 3600, budget_ok=True, heap="8g")
        if rs["error"]:
            raise core.Machinery("GreedySelectorImpl simulation %s: %s\n%s" % (fam, rs["error"], core.tlc_error_excerpt(rs, 30)))
        rep.cov["parts"]["GreedySelectorImpl[%s] simulation, N=6" % fam] = {"states_checked": rs.get("sim_states", 0), "result": "no error"}
        rep.cov["states"] += rs.get("sim_states", 0)
        rep.cov["transitions"] += rs.get("sim_states", 0)
    rep.cov["exhaustive"] = True
    if tier == "thorough":
        # optional extra (never decides the verdict): Apalache discharges the inductive invariant of the reference
        # bookkeeping for every N <= 12 and an arbitrary scorer (spec/apalache/GreedyInd.tla)
        import shutil, subprocess, tempfile
        out = tempfile.mkdtemp(prefix="apa-", dir=core.scratch())
        res = []
        for init, length in (("Init", 0), ("IndInit", 1)):
            try:
                p = subprocess.run(["apalache-mc", "check", "--cinit=CInit", "--init=" + init, "--inv=IndInv", "--length=%d" % length,
                                    "--out-dir=" + out, "GreedyInd.tla"], cwd=os.path.join(core.SPEC, "apalache"), timeout=900,
                                   stdout=subprocess.PIPE, stderr=subprocess.STDOUT, text=True)
                res.append("%s/length %d: %s" % (init, length, "NoError" if "The outcome is: NoError" in p.stdout else "not discharged"))
            except Exception as e:  # noqa
                res.append("%s/length %d: not run (%s)" % (init, length, type(e).__name__))
        shutil.rmtree(out, ignore_errors=True)
        rep.cov["parts"]["Apalache inductive invariant (extra)"] = res
    # (C) traces of the real code
    per = 40 if tier == "quick" else 650
    jobs = [(w, per, core.seed()) for w in range(core.NCPU)]
    with mp.Pool(core.NCPU) as pool:
        traces = [t for part in pool.map(gen_traces, jobs) for t in part]
    verdicts, stats = core.validate_cases("trace/TraceGreedy.tla", [strip(t) for t in traces])
    rep.add_trace_stats("TraceGreedy", stats, len(traces))
    core.judge(rep, traces, verdicts)
    # (B) spec -> code: behaviours generated by TLC (requests, thresholds, warm starts AND the score tables) are replayed in
    # the real GreedySelector.fit through a subclass with a scripted scorer; tie-free behaviours must be reproduced exactly
    from harness import behaviours as B
    beh, rsim = B.dump_behaviours("GreedySelector.tla", "mc/GreedySelector_cur.cfg", 150 if tier == "quick" else 3000, 14, core.seed() + 1)
    btr = [B.replay(b, 4, "beh%d" % i) for i, b in enumerate(beh)]
    btr = [t for t in btr if t["events"]]
    bv, bstats = core.validate_cases("trace/TraceGreedy.tla", btr)
    rep.add_trace_stats("TraceGreedy[TLC behaviours replayed with a scripted scorer]", bstats, len(btr))
    core.judge(rep, btr, bv)
    rep.cov["behaviours_replayed_from_tlc_simulate"] = len(btr)
    # (C') code -> spec on the repository's own selector tests, recorded through the guarded source hooks
    from harness import hooktraces as HT
    recs, tail = HT.record()
    htr, skipped = HT.convert(recs)
    if not htr:
        # a tree without the hook commit (or with renamed call sites): this channel is skipped, never an alarm
        rep.cov["parts"]["TraceGreedy[repository tests via SKMATTER_VERIF hooks]"] = "skipped: no hook events were emitted"
    else:
        hv, hstats = core.validate_cases("trace/TraceGreedy.tla", [strip(t) for t in htr])
        rep.add_trace_stats("TraceGreedy[repository tests via SKMATTER_VERIF hooks]", hstats, len(htr))
        core.judge(rep, htr, hv)
    rep.cov["hook_events_recorded_from_repository_tests"] = len(recs)
    rep.cov["hook_traces_skipped_as_too_large"] = skipped
    by_cls = {}
    for t in traces:
        by_cls[t["cls"]] = by_cls.get(t["cls"], 0) + 1
        for e in t["events"]:
            if e["a"] == "step" and e["c"] == 0:
                rep.hit("threshold-stop")
            if e["a"] == "begin" and e["warm"] and not e["raised"]:
                rep.hit("warm-start")
            if e["a"] == "begin" and e["raised"]:
                rep.hit("fit-rejected")
    rep.cov["traces_by_class"] = by_cls
    rep.cov["observation_layer"] = sorted({t["layer"] for t in traces})
    for t in traces[:2]:
        rep.sample({"cls": t["cls"], "params": t["params"], "X": t["X"], "events": t["events"][:6]})
    rep.assumptions += ["score tables are read through the public score method (instance-level wrapper)",
                        "float scores of CUR/feature PCov-FPS are quantised to 1e-6/1e-4 with a two-unit tie tolerance"]
    return rep.finish()


def reexecute(case):
    """re-run the recorded call history of a C01 case against the current code -> fresh trace"""
    from harness import selectors as H
    name = case["cls"]
    cls, axis, family, needs_y = H.CLASSES[name]
    kw = dict(case["params"])
    if isinstance(kw.get("initialize"), list):
        kw["initialize"] = list(kw["initialize"])
    X = np.asarray(case["X"], float) * case.get("scale", 1.0)
    if case.get("f32"):
        X = X.astype(np.float32)
    y = None if case["y"] is None else np.asarray(case["y"], float) * case.get("scale", 1.0)
    obj = cls(**kw)
    unit = case["unit"] / (case.get("scale", 1.0) ** 2) if case.get("scale", 1.0) != 1.0 else case["unit"]
    rec = H.Recorder(obj, name, X, y, unit, case["tol"] == 0)
    for e in case["events"]:
        if e["a"] != "begin":
            continue
        nts = None if e["nts"][0] == "none" else (e["nts"][1] if e["nts"][0] == "int" else e["nts"][1] / e["nts"][2])
        thr, ttype = None, "absolute"
        if e["thr"][0] == "abs":
            thr = (e["thr"][1], e["thr"][2] * case["unit"])
        elif e["thr"][0] == "rel":
            thr, ttype = (e["thr"][1], e["thr"][2]), "relative"
        rec.fit(nts, warm=e["warm"], thr=thr, thr_type=ttype, with_y=y is not None, init=[i - 1 for i in e["init"]])
    out = dict(case)
    out["events"] = rec.events
    return out


def replay(path):
    """--replay: re-execute the recorded history against the current tree (when the replay file holds the inputs),
    then validate the fresh trace; otherwise re-validate the recording"""
    with open(path) as fh:
        rp = json.load(fh)
    case = rp["case"]
    if "cls" in case and "X" in case and case["cls"] in ("fFPS", "sFPS", "fPCovFPS", "sPCovFPS", "fCUR", "sCUR", "fPCovCUR", "sPCovCUR", "VoronoiFPS"):
        fresh = reexecute(case)
        v, _ = core.validate_cases("trace/TraceGreedy.tla", [strip(fresh)], chunks=1)
        r = v[fresh["id"]]
        print("replay %s: property=C01 re-executed %s%s; recorded clause=%s; verdict now=%s ctx=%s" % (path, case["cls"], case["params"], rp["clause"], r["v"], r.get("ctx")))
        return 0 if r["v"][0] == "ok" else 1
    return core.replay_recorded(path, "trace/TraceGreedy.tla", strip)
