"""C03 — PCovR's latent space does not depend on the computational route."""
import multiprocessing as mp

import numpy as np

from harness import core


def gen(args):
    wid, ncases, sd = args
    from harness import pcovr as P
    rng = np.random.default_rng([sd, wid, 303])
    out = []
    for t in core.timed(range(ncases)):
        shape = ["tall", "wide", "square", "lowrank", "illcond", "weakgap"][(t + wid) % 6]
        if shape == "tall":
            n, m = int(rng.integers(6, 9)), int(rng.integers(2, 5))
        elif shape == "wide":
            n, m = int(rng.integers(4, 6)), int(rng.integers(5, 7))
        elif shape == "square":
            n = m = int(rng.integers(4, 7))
        else:
            n, m = int(rng.integers(5, 9)), int(rng.integers(3, 6))
        wk = None
        if shape == "weakgap":
            n, m = 8, int(rng.integers(5, 8))
        Xi = P.centred_lattice(rng, n, m, 4, "lowrank" if shape == "lowrank" else "full")
        if shape == "weakgap":
            # a few leading directions followed by a FLAT tail that is only moderately weaker (eigenvalue ratio 0.56 .. 0.69):
            # orthogonal, centred +-1 patterns (columns of the 8 x 8 Hadamard matrix) times integer scales c+wk, .., c+1, c, c, ..
            H2 = np.array([[1, 1], [1, -1]])
            H8 = np.kron(np.kron(H2, H2), H2)
            cols = rng.permutation(np.arange(1, 8))[:m]
            wk = int(rng.integers(1, 3))
            c0 = int(rng.integers(3, 6))
            scl = np.array([c0 + wk - j for j in range(wk)] + [c0] * (m - wk))
            Xi = (H8[:, cols] * scl)[rng.permutation(8)][:, rng.permutation(m)]
        if shape == "square" and rng.random() < 0.4:
            Xi = P.symmetric_centred(rng, n)              # a square symmetric data matrix is still a data matrix
        p = int(rng.integers(1, 3))
        Yi = P.centred_lattice(rng, n, p, 4)
        if shape != "illcond" and rng.random() < 0.15:
            jf = int(rng.integers(m))
            if np.any(Xi[:, jf]):
                Yi[:, 0] = Xi[:, jf]                     # a target that is exactly one of the (non-empty) features
        if shape != "illcond" and p == 2 and rng.random() < 0.2:
            Yi[:, 1] = Yi[:, 0]                              # the same property given twice
        xpert = None
        if shape == "illcond":
            # condition number about 1e7: the last column repeats the first one up to 2^-22 z, and the targets contain z, so
            # the weak direction carries an O(1) part of the regression (a cut-off acting on SQUARED singular values loses it)
            # the smallest eigenvalue of X^T X is placed inside the window (tol, tol * smax^2) - above the estimator's own
            # (absolute) numerical-rank threshold tol = 1e-12, so the data is of full numerical rank for it, but below a
            # threshold relative to the largest eigenvalue - with a factor of at least 3 to either side; no window, no case
            z = P.centred_lattice(rng, n, 1, 4)[:, 0]
            Xi[:, -1] = Xi[:, 0]
            best = None
            if np.linalg.matrix_rank(Xi[:, :-1]) == m - 1 and np.any(z):
                def weakest(eps):
                    Xt = Xi / 4.0
                    Xt[:, -1] += z * eps
                    ev = np.linalg.eigvalsh(Xt.T @ Xt)
                    return ev[0], ev[-1]
                l0, top = weakest(2.0 ** -20)
                lo, hi = 3e-12, 1e-12 * top / 3
                if l0 > 0 and hi >= lo:
                    eps = 2.0 ** -20 * np.sqrt(np.sqrt(lo * hi) / l0)        # the weak eigenvalue scales with eps^2
                    l1, _ = weakest(eps)
                    if lo <= l1 <= hi:
                        best = eps
            if best is not None:
                xpert = np.zeros((n, m)); xpert[:, -1] = z * best
                Yi[:, 0] = np.clip(Yi[:, 0] + z, -8, 8); Yi[-1, 0] -= Yi[:, 0].sum()
            else:
                shape = "illcond-unavailable"
        a = int(rng.choice([0, 0, 8, 1, 2, 3, 4, 5, 6, 7]))      # both end points more often than the interior values
        kmax = min(n, m)
        k = int(rng.integers(1, kmax + 1))
        if a == 0 and rng.random() < 0.6:
            k = int(rng.integers(min(p + 1, kmax), kmax + 1))     # more components than independent targets: zero-weight components retained
        if wk is not None:
            a, k = (8 if rng.random() < 0.6 else a), wk          # the leading directions are the ones retained
        if xpert is not None:
            # the weak direction's own eigenvalue (about 1e-12, above the estimator's guard) is never among the retained ones:
            # a component at the noise floor is amplified legitimately and differently by the approximate solvers
            k = min(k, m - 1)
        route = ["default", "ridge", "lr", "ridgeS"][int(rng.integers(4))]
        fits, groups = [], []
        # spectrum of the full problem (precondition "retained spectrum separated" is evaluated by the spec on it)
        full = P.fit_record(Xi, Yi, a, kmax, "sample", "full", route, xpert=xpert)
        if full["raised"]:
            out.append({"id": "w%d-%d" % (wid, t), "mode": "C03", "monoY": False, "X": Xi.tolist(), "Y": Yi.tolist(), "raised": True, "fits": [], "chains": [], "groups": [],
                        "msg": full.get("msg")})
            continue
        lamfull = full["lam"]
        members = [("feature", "full", route, None), ("sample", "full", route, None), ("sample", "randomized", route, None),
                   ("feature", "randomized", route, None), ("auto", "auto", route, None)]        # the defaults resolve to one of the routes
        if k < kmax:
            members += [("feature", "arpack", route, None), ("sample", "arpack", route, None)]
        members += [("sample", "full", "pre", "W"), ("feature", "full", "pre", None), ("sample", "full", "pre", None)]
        grp, bad, msg = [], False, None
        for (space, solver, r, w) in members:
            pre = None
            if r == "pre":
                pre = (full["_Yh"], full["_W"] if w == "W" else None)
            rec = P.fit_record(Xi, Yi, a, k, space, solver, r, pre=pre, seed=int(rng.integers(100)), xpert=xpert)
            if rec["raised"]:
                bad, msg = True, "%s/%s/%s: %s" % (space, solver, r, rec.get("msg"))
                break
            rec["lamfull"] = lamfull
            rec["cmpY"] = r != "pre"
            fits.append(rec)
            grp.append(len(fits))
        groups.append(grp)
        c = {"id": "w%d-%d" % (wid, t), "mode": "C03", "monoY": False, "X": Xi.tolist(), "Y": Yi.tolist(), "raised": bad, "shape": shape,
             "fits": [P.public(f) for f in fits] if not bad else [], "chains": [], "groups": groups if not bad else []}
        if bad:
            c["msg"] = msg
        out.append(c)
    return out


def strip(c):
    return {k: c[k] for k in ("id", "mode", "X", "Y", "raised", "fits", "chains", "groups", "monoY")}


def run(tier):
    rep = core.Report("C03", tier)
    per = 5 if tier == "quick" else 95
    with mp.Pool(core.NCPU) as pool:
        cases = [c for part in pool.map(gen, [(w, per, core.seed()) for w in range(core.NCPU)]) for c in part]
    verdicts, stats = core.validate_cases("trace/TracePCovR.tla", [strip(c) for c in cases], timeout=7200, chunks=core.NCPU, heap="4g")
    rep.add_trace_stats("TracePCovR[C03]", stats, len(cases))
    core.judge(rep, cases, verdicts)
    rep.cov["fits_checked"] = sum(len(c["fits"]) for c in cases)
    routes = {}
    for c in cases:
        for f in c["fits"]:
            kx = "%s/%s/%s" % (f["space"], f["solver"], f["route"])
            routes[kx] = routes.get(kx, 0) + 1
    rep.cov["routes"] = routes
    f0 = cases[0]["fits"][0] if cases[0]["fits"] else {}
    rep.sample({"X": cases[0]["X"], "Y": cases[0]["Y"], "fit": {k: f0.get(k) for k in ("a", "k", "space", "solver", "route", "lam")}})
    rep.assumptions += ["centred lattice data (entries/4); the modified Gram matrix is rebuilt by the specification from X and the logged regressed targets; precision about 1e-3 relative",
                        "route comparisons are demanded only when the specification finds the retained spectrum distinct and separated (gap above 2 % of the largest eigenvalue)"]
    return rep.finish()


def replay(path):
    return core.replay_recorded(path, "trace/TracePCovR.tla", strip)
