"""C19 — DirectionalConvexHull selects exactly the lower-hull vertices, signed distances."""
import itertools
import multiprocessing as mp
import warnings

import numpy as np

from harness import core


def general_position(P):
    """input conditioning only (the specification re-evaluates its own predicate exactly)"""
    # samples may repeat a low-dimensional position with different targets: the pre-filter looks at the lowest sample of
    # every position only (repeated positions with equal targets are ties)
    if len({tuple(r) for r in P.tolist()}) < len(P) or any(len({tuple(r) for r in P[np.all(P[:, 1:] == x, axis=1)].tolist()}) < int(np.all(P[:, 1:] == x, axis=1).sum()) for x in P[:, 1:]):
        return False
    keep = [i for i in range(len(P)) if P[i, 0] == P[np.all(P[:, 1:] == P[i, 1:], axis=1), 0].min()]
    P = P[keep]
    n, d1 = P.shape
    d = d1 - 1
    if n < d + 2:
        return False
    for t in itertools.combinations(range(n), d + 1):
        A = np.hstack([np.ones((d + 1, 1)), P[list(t), 1:]])
        if round(np.linalg.det(A)) == 0:
            return False
    for t in itertools.combinations(range(n), d + 2):
        A = np.hstack([np.ones((d + 2, 1)), P[list(t)]])
        if round(np.linalg.det(A)) == 0:
            return False
    return True


def fit_case(cid, kind, P, Hd, order, queries, s, tolerance=1e-12, xdtype=None):
    """P: rows <<y, x_low..>> integers; Hd: extra high-dimensional columns (integers); order: column order
    of low_dim_idx in X; s: dyadic scale divisor of all values."""
    from skmatter.sample_selection import DirectionalConvexHull
    n, d = P.shape[0], P.shape[1] - 1
    nh = Hd.shape[1]
    # build X with low-dimensional columns at positions `order` (a permutation choice), high-dim in the rest
    ncol = d + nh
    cols = list(order)
    hcols = [c for c in range(ncol) if c not in cols]
    X = np.zeros((n, ncol))
    for k, c in enumerate(cols):
        X[:, c] = P[:, 1 + k] / s
    for k, c in enumerate(hcols):
        X[:, c] = Hd[:, k] / s
    y = P[:, 0] / s
    if xdtype is not None:
        # features of another dtype (integer counts, single precision) with fractional float64 targets: only the targets carry
        # the dyadic scale then, which is a positive rescaling of the target axis (distances * s are still in units of P)
        X = (X * s).astype(xdtype)
    c = {"id": cid, "kind": kind, "Pt": P.astype(int).tolist(), "sel": [], "sgn": [], "dq": [], "hres": [], "hnan": [], "queries": [],
         "raised": False, "nbase": 0, "basesel": [], "basedq": [], "A": 1, "B": 0}
    try:
        with warnings.catch_warnings():
            warnings.simplefilter("ignore")
            # the documented default of low_dim_idx (None) means "the first column"
            lowarg = None if (list(cols) == [0] and (n + nh) % 2 == 0) else cols
            m = core.mk(DirectionalConvexHull, low_dim_idx=lowarg, tolerance=tolerance).fit(X, y)
            dist = m.score_samples(X, y) * s
            c["sel"] = [int(i) + 1 for i in m.selected_idx_]
            c["sgn"] = [int(np.sign(v)) if abs(v) > 1e-9 else 0 for v in dist]
            c["dq"] = [int(round(v * 1024)) for v in dist]
            if nh:
                res = np.asarray(m.score_feature_matrix(X))
                c["hres"] = [bool(np.all(np.abs(r) < 1e-9)) for r in res.reshape(n, -1)]
                c["hnan"] = [bool(np.any(~np.isfinite(r))) for r in res.reshape(n, -1)]
            else:
                c["hres"] = [True] * n
                c["hnan"] = [False] * n
            if queries:
                # all queries in ONE call as well (a batch mixing samples below and above the surface)
                Xb = np.zeros((len(queries), ncol))
                for qi, (qy, qx) in enumerate(queries):
                    for k, cc in enumerate(cols):
                        Xb[qi, cc] = qx[k] / s
                if xdtype is not None:
                    Xb = (Xb * s).astype(xdtype)
                batch = np.asarray(m.score_samples(Xb, np.array([qy / s for qy, _ in queries])), float) * s
            for qi, (qy, qx) in enumerate(queries):
                Xq = np.zeros((1, ncol))
                for k, cc in enumerate(cols):
                    Xq[0, cc] = qx[k] / s
                if xdtype is not None:
                    Xq = (Xq * s).astype(xdtype)
                dqv = float(m.score_samples(Xq, np.array([qy / s]))[0]) * s
                # raw sign for queries: the specification only demands a sign where its exact offset is non-zero
                c["queries"].append({"y": int(qy), "x": [int(v) for v in qx], "sgn": int(np.sign(dqv)),
                                     "dq": int(round(dqv * 1024)), "dqb": int(round(float(batch[qi]) * 1024)) if np.isfinite(batch[qi]) else 2000000000,
                                     "sgnb": int(np.sign(batch[qi])) if np.isfinite(batch[qi]) else 0})
    except Exception as e:  # noqa
        c["raised"] = True
        c["msg"] = "%s: %s" % (type(e).__name__, str(e)[:100])
    return c


def gen(args):
    wid, n, sd = args
    rng = np.random.default_rng([sd, wid, 1919])
    out = []
    t = 0
    tries = 0
    while len(out) < n and tries < n * 400 and core.arm():
        tries += 1
        d = int(rng.choice([1, 1, 2, 2, 3]))
        N = int(rng.integers(d + 2, {1: 13, 2: 10, 3: 8}[d]))
        r = 6
        Xl = rng.integers(-r, r + 1, size=(N, d))
        if rng.random() < 0.3:
            # repeated low-dimensional positions (composition grids, discrete features): a few samples sit exactly above others
            for _ in range(int(rng.integers(1, 4))):
                a, b = rng.integers(0, N, size=2)
                Xl[a] = Xl[b]
        conv = rng.random() < 0.5
        yv = (Xl ** 2).sum(1) + rng.integers(0, 6, size=N) if conv else rng.integers(-8, 9, size=N)
        P = np.hstack([yv.reshape(-1, 1), Xl])
        if not general_position(P):
            continue
        nh = int(rng.integers(0, 4))
        Hd = rng.integers(-5, 6, size=(N, nh))
        order = list(rng.permutation(d + nh)[:d])
        s = [1, 2, 4][int(rng.integers(3))]
        queries = []
        for _ in range(4):
            w = rng.dirichlet(np.ones(N))
            qx = np.rint(w @ Xl).astype(int)
            queries.append((int(rng.integers(-12, 60 if conv else 12)), qx))
        cid = "w%d-%d" % (wid, t)
        t += 1
        # the tolerance only separates "on" from "below" the surface; the hull itself must not depend on it, also for
        # steep hulls (one hull dimension, targets in large units)
        tol = float(rng.choice([1e-12, 1e-12, 1e-8, 1e-3, 1e-3]))
        if d == 1 and rng.random() < 0.5:
            P = P.copy(); P[:, 0] *= int(rng.choice([64, 1024]))
            queries = [(qy * 64, qx) for qy, qx in queries]
        xdt = [None, None, None, np.int64, np.float32][int(rng.integers(5))]
        base = fit_case(cid, "base", P, Hd, order, queries, s, tol, xdt)
        out.append(base)
        if base["raised"]:
            continue
        v = int(rng.integers(3))
        if v == 0:       # add samples (candidates: above the current hull by construction, the spec checks strictly-above exactly)
            k = int(rng.integers(1, 4))
            idx = rng.integers(0, N, size=(k, 2))
            newx = (Xl[idx[:, 0]] + Xl[idx[:, 1]]) // 2
            newy = np.maximum(yv[idx[:, 0]], yv[idx[:, 1]]) + rng.integers(1, 6, size=k)
            P2 = np.vstack([P, np.hstack([newy.reshape(-1, 1), newx])])
            if not general_position(P2):
                continue
            Hd2 = np.vstack([Hd, rng.integers(-5, 6, size=(k, nh))])
            c2 = fit_case(cid + "-above", "added-above", P2, Hd2, order, [], s, tol, xdt)
            c2.update({"nbase": N, "basesel": base["sel"], "basedq": base["dq"], "A": 1, "B": 0})
            out.append(c2)
        elif v == 1:     # positive affine map of the target
            A, B = int(rng.integers(1, 5)), int(rng.integers(-7, 8))
            if d == 1 and rng.random() < 0.5:
                # total energies: an offset five orders of magnitude above the gaps between the samples and the surface
                B = int(rng.choice([-3, -2, -1, 1, 2, 3])) * 100000
            P2 = P.copy(); P2[:, 0] = A * P[:, 0] + B
            c2 = fit_case(cid + "-affine", "affine-y", P2, Hd, order, [], s, tol, xdt)
            c2.update({"nbase": N, "basesel": base["sel"], "basedq": base["dq"], "A": A, "B": B})
            out.append(c2)
    core.disarm()
    return out


def strip(c):
    return {k: c[k] for k in ("id", "kind", "Pt", "sel", "sgn", "dq", "hres", "hnan", "queries", "raised", "nbase", "basesel", "basedq", "A", "B")}


def run(tier):
    rep = core.Report("C19", tier)
    quick = tier == "quick"
    for cfg in (["1d4"] if quick else ["1d4", "1d5", "2d4"]):
        r = core.model_check("DCH.tla", "mc/DCH_%s.cfg" % cfg, coverage=False, timeout=4 * 3600, heap="16g")
        rep.add_mc("DCH[%s]: strictly-below characterisation = supporting-facet hull, offsets, metamorphic laws on all point sets" % cfg, r)
    r = core.model_check("DCHDistance.tla", "mc/DCHDistance.cfg", coverage=False, timeout=600)
    rep.add_mc("DCHDistance: code-shaped distance rule has the sign of the true offset (all plane-distance patterns)", r)
    r = core.model_check("DCHDistance.tla", "mc/DCHDistance_pinned.cfg", coverage=False, timeout=600)
    if r["error"] != "invariant-violated":
        raise core.Machinery("pinned distance rule (zero kept among the negative candidates) not rejected by the model")
    rep.cov["parts"]["DCHDistance[pinned rule]"] = "violates %s as expected" % r.get("violated")
    r = core.model_check("DCHDistance.tla", "mc/DCHDistance_belowvalue.cfg", coverage=False, timeout=600)
    if r["error"] != "invariant-violated":
        raise core.Machinery("named deviation (value below the surface is the closest plane from below, not the offset) not reproduced by the model")
    rep.cov["parts"]["DCHDistance[value below the surface]"] = "is not the vertical offset (%s fails, BelowIsBounded holds): outside the property, which fixes the sign only" % r.get("violated")
    rep.cov["exhaustive"] = True
    per = 14 if quick else 200
    with mp.Pool(core.NCPU) as pool:
        cases = [c for part in pool.map(gen, [(w, per, core.seed()) for w in range(core.NCPU)]) for c in part]
    verdicts, stats = core.validate_cases("trace/TraceDCH.tla", [strip(c) for c in cases], timeout=7200)
    rep.add_trace_stats("TraceDCH", stats, len(cases))
    core.judge(rep, cases, verdicts)
    kinds = {}
    for c in cases:
        k = "%s/d%d" % (c["kind"], len(c["Pt"][0]) - 1)
        kinds[k] = kinds.get(k, 0) + 1
    rep.cov["cases_by_kind_and_hull_dimension"] = kinds
    rep.sample({k: cases[0][k] for k in ("kind", "Pt", "sel", "sgn", "dq", "queries")})
    rep.assumptions += ["inputs are integer points in general position (the predicate is evaluated exactly by the specification; other inputs are inconclusive)",
                        "distances are compared at a resolution of 2^-10 lattice units, signs with a 1e-9 dead band"]
    return rep.finish()


def replay(path):
    return core.replay_recorded(path, "trace/TraceDCH.tla", strip)
