"""C12 — kernel centring and normalisation equal centring and scaling in feature space."""
import multiprocessing as mp
import warnings

import numpy as np

from harness import core

SQ = 1024
S = 16384


def q(a, s):
    a = np.asarray(a, float)
    if not np.all(np.isfinite(a)):
        return None
    return np.rint(a * s).astype(int).tolist()


def dense_case(cid, Phi, Psi, w, wc, wt, ft=True):
    from skmatter.preprocessing import KernelNormalizer
    Phi = np.asarray(Phi, float)
    Psi = np.asarray(Psi, float).reshape(-1, Phi.shape[1])
    K = Phi @ Phi.T
    Kt = Psi @ Phi.T
    c = {"id": cid, "kind": "dense", "Phi": Phi.astype(int).tolist(), "Psi": Psi.astype(int).tolist(), "w": [] if w is None else [int(v) for v in w],
         "wc": bool(wc), "wt": bool(wt), "raised": False, "Ktrain": [], "Ktest": [], "Kft": [], "scaleq": 0,
         "T": [], "Kmm": [], "P": [], "Knmq": [], "Tft": [], "trpos": False, "finite": True}
    sw = None if w is None else np.asarray(w, float)
    try:
        with warnings.catch_warnings():
            warnings.simplefilter("ignore")
            # weights are array-LIKE: a plain list or tuple now and then
            swa = sw if (sw is None or (len(sw) + int(np.sum(sw))) % 3) else (list(sw) if len(sw) % 2 else tuple(sw))
            kn = core.mk(KernelNormalizer, with_center=wc, with_trace=wt).fit(K.copy(), sample_weight=swa)
            # transform / fit_transform may work in place when asked to (copy=False): same values, on a private copy
            if sw is not None:
                sw[:] = sw[::-1].copy() + 1.0          # the caller reuses its weight buffer after fit: the fitted state must not follow
            cp = {} if (len(K) + len(Kt)) % 2 == 0 else {"copy": False}
            a, b = q(kn.transform(K.copy(), **cp), SQ), q(kn.transform(Kt.copy(), **cp), SQ)
            sc = q([kn.scale_], SQ)
            f = q(KernelNormalizer(with_center=wc, with_trace=wt).fit_transform(K.copy(), sample_weight=None if w is None else np.asarray(w, float), **cp), SQ) if ft else []
        if a is None or b is None or sc is None or f is None:
            c["degenerate"] = True          # zero trace: division by zero in the implementation (the spec decides: TrN = 0)
            c["Ktrain"] = [[0] * len(K)] * len(K)
            c["Ktest"] = [[0] * len(K)] * len(Psi)
        else:
            c["Ktrain"], c["Ktest"], c["Kft"], c["scaleq"] = a, b, f, sc[0]
    except Exception as e:  # noqa
        c["raised"] = True
        c["msg"] = "%s: %s" % (type(e).__name__, str(e)[:80])
    return c


def sparse_case(cid, Phi, A, w, wc, wt, rng=None):
    from skmatter.preprocessing import SparseKernelCenterer
    Phi, A = np.asarray(Phi, float), np.asarray(A, float)
    Knm, Kmm = Phi @ A.T, A @ A.T
    c = {"id": cid, "kind": "sparse", "Phi": Phi.astype(int).tolist(), "Psi": [], "w": [] if w is None else [int(v) for v in w],
         "wc": bool(wc), "wt": bool(wt), "raised": False, "Ktrain": [], "Ktest": [], "Kft": [], "scaleq": 0,
         "T": [], "Kmm": q(Kmm, S), "P": [], "Knmq": q(Knm, S), "Tft": [], "trpos": False, "finite": True}
    sw = None if w is None else np.asarray(w, float)
    try:
        with warnings.catch_warnings():
            warnings.simplefilter("ignore")
            # the same features in other units (kernel values times cu^2) and a non-default relative cut-off: the centred
            # Nystrom kernel is unit-free up to the factor converted back below; rcond is relative to the largest eigenvalue
            cu = float(rng.choice([1.0, 1.0, 1e-3, 30.0])) if rng is not None else 1.0
            rc = float(rng.choice([1e-12, 1e-12, 1e-4])) if rng is not None else 1e-12
            back = cu if wt else cu * cu
            swa = sw if (sw is None or (len(sw) + int(np.sum(sw))) % 3) else (list(sw) if len(sw) % 2 else tuple(sw))
            sk = core.mk(SparseKernelCenterer, with_center=wc, with_trace=wt, rcond=rc).fit(Knm * cu * cu, Kmm * cu * cu, sample_weight=swa)
            T = sk.transform(Knm * cu * cu) / back
            Tft = SparseKernelCenterer(with_center=wc, with_trace=wt, rcond=rc).fit_transform(Knm * cu * cu, Kmm * cu * cu, sample_weight=sw) / back
            c["units"] = [cu, rc]
        c["P"] = q(np.linalg.pinv(Kmm, 1e-12), S)       # witness, verified by the specification
        if not np.all(np.isfinite(T)) or not np.all(np.isfinite(Tft)):
            # a vanishing Nystrom trace makes the implementation divide by zero; whether the trace of the INPUT vanishes is
            # decided by the specification - a non-finite result for any other input is a violation
            c["finite"] = False
            c["T"] = [[0] * Knm.shape[1]] * Knm.shape[0]
            return c
        c["T"], c["Tft"] = q(T, S), q(Tft, S)
        c["trpos"] = True
    except Exception as e:  # noqa
        c["raised"] = True
        c["msg"] = "%s: %s" % (type(e).__name__, str(e)[:80])
    return c


def gen(args):
    wid, n, sd = args
    rng = np.random.default_rng([sd, wid, 1212])
    out = []
    for t in core.timed(range(n)):
        nn, d = int(rng.integers(2, 9)), int(rng.integers(1, 4))
        Phi = rng.integers(-4, 5, size=(nn, d))
        wk = int(rng.integers(4))
        w = None if wk == 0 else (np.full(nn, int(rng.integers(1, 4))) if wk == 1 else rng.integers(0, 4, size=nn))
        if w is not None and w.sum() == 0:
            w[0] = 1
        wc, wt = bool(rng.integers(2)), bool(rng.integers(2))
        if t % 3 != 2:
            Psi = rng.integers(-4, 5, size=(int(rng.integers(1, 12)), d))
            out.append(dense_case("w%d-%d" % (wid, t), Phi, Psi, w, wc, wt))
        else:
            m = int(rng.integers(1, 6))
            A = Phi[rng.choice(nn, size=min(m, nn), replace=False)] if rng.random() < 0.6 else rng.integers(-2, 3, size=(m, d))
            c = sparse_case("w%d-%d" % (wid, t), Phi, A, w, wc, wt, rng)
            if c is not None:
                out.append(c)
    return out


def gen_enum(args):
    wid, cfgs = args
    return [dense_case("e%d" % k, e["Phi"], e["Psi"], e["w"] or None, e["wc"], e["wt"], ft=False) for k, e in cfgs]


KEYS = ("id", "kind", "Phi", "Psi", "w", "wc", "wt", "raised", "Ktrain", "Ktest", "Kft", "scaleq", "T", "Kmm", "P", "Knmq", "Tft", "trpos", "finite")


def strip(c):
    return {k: c[k] for k in KEYS}


def run(tier):
    rep = core.Report("C12", tier)
    quick = tier == "quick"
    r = core.run_tlc("KernelEnum.tla", cfg="mc/KernelEnum.cfg", workers=1, heap="4g", timeout=1800)
    rep.add_mc("KernelEnum: all 3x2 feature matrices over {-1,0,2} x 4 weightings x flags x test-set sizes", r)
    cfgs = [(k, e) for k, e in enumerate(r["records"]) if e.get("k") == "E"]
    if len(cfgs) != 729 * 4 * 4 * 3:
        raise core.Machinery("expected 34992 enumerated configurations, got %d" % len(cfgs))
    rep.cov["exhaustive"] = not quick
    if quick:
        cfgs = cfgs[core.seed() % 24::24]
    per = 40 if quick else 400
    with mp.Pool(core.NCPU) as pool:
        cases = [c for part in pool.map(gen, [(w, per, core.seed()) for w in range(core.NCPU)]) for c in part]
        enum = [c for part in pool.map(gen_enum, [(w, cfgs[w::core.NCPU]) for w in range(core.NCPU)]) for c in part]
    allc = cases + enum
    verdicts, stats = core.validate_cases("trace/TraceKernelNorm.tla", [strip(c) for c in allc], timeout=7200)
    rep.add_trace_stats("TraceKernelNorm", stats, len(allc))
    core.judge(rep, allc, verdicts)
    rep.cov["configurations_replayed_from_TLC_enumeration"] = len(enum)
    rep.cov["sparse_cases"] = sum(1 for c in cases if c["kind"] == "sparse")
    rep.sample({k: cases[0][k] for k in ("kind", "Phi", "Psi", "w", "wc", "wt", "Ktrain")})
    rep.assumptions += ["kernels are Gram matrices of explicit integer features; expected entries are exact rationals, compared at 2^-10",
                        "the pseudo-inverse of K_MM used for the Nystrom trace is a numpy witness verified by the Moore-Penrose equations in the specification"]
    return rep.finish()


def replay(path):
    return core.replay_recorded(path, "trace/TraceKernelNorm.tla", strip)
