"""C18 — OrthogonalRegression yields an orthogonal map that is Procrustes-optimal."""
import multiprocessing as mp
import warnings

import numpy as np

from harness import core

S = 16384


def fq(a):
    return np.rint(np.asarray(a, float) * S).astype(int).tolist()


def rat_orth(rng, p):
    """rational orthogonal matrix: signed permutation times Pythagorean Givens rotations; returns (Q*den, den)"""
    Q = np.zeros((p, p), int)
    perm = rng.permutation(p)
    for i in range(p):
        Q[i, perm[i]] = int(rng.choice([-1, 1]))
    den = 1
    if p >= 2 and rng.random() < 0.7:
        a, b = sorted(rng.choice(p, size=2, replace=False))
        c, s_, h = [(3, 4, 5), (4, 3, 5), (-3, 4, 5)][int(rng.integers(3))]
        G = np.eye(p, dtype=int) * h
        G[a, a], G[a, b], G[b, a], G[b, b] = c, s_, -s_, c
        Q = Q @ G
        den = h
    return Q, den


def case(cid, rng, kind, padded, est):
    from skmatter.linear_model import OrthogonalRegression
    from sklearn.linear_model import LinearRegression, Ridge
    f, t = int(rng.integers(1, 5)), int(rng.integers(1, 5))
    Q, Qden = None, 1
    if kind == "offset":
        t = f = int(rng.integers(2, 5))      # rotation plus translation: the linear fit (with intercept) has orthogonal coefficients
    if kind == "recover":
        if padded:
            f = int(rng.integers(1, 5)); t = int(rng.integers(f, 5))
        else:
            t = f
    p = max(f, t)
    n = int(rng.integers(p + 1, 11))
    X = rng.integers(-4, 5, size=(n, f))
    while np.linalg.matrix_rank(X) < f:              # input conditioning (full column rank where the property needs it)
        X = rng.integers(-4, 5, size=(n, f))
    if kind != "recover" and f >= 2 and rng.random() < 0.5:
        X[:, int(rng.integers(f))] *= 3          # anisotropic source: a biased linear fit then shrinks directions unevenly
    if kind == "recover":
        Qm, Qden = rat_orth(rng, p if padded else f)
        X = X * Qden
        Xp = np.pad(X, [(0, 0), (0, (p - f) if padded else 0)])
        Y = (Xp @ Qm) // Qden
        Y = Y[:, :t]
        if padded and f < t and np.any((Xp @ Qm)[:, t:]):
            pass
        Q = Qm
    elif kind == "offset":
        Qm, Qden = rat_orth(rng, f)
        X = (np.clip(X, -2, 2) + rng.integers(1, 3, size=f)) * Qden           # uncentred source (small: the residual stays in range)
        Y = (X @ Qm) // Qden + rng.integers(-2, 3, size=t) * Qden
        est = "default"
    elif kind == "single-target":
        # one target in projector mode: the only thing left to decide is a sign; uncentred data (the default linear fit has an
        # intercept, the orthogonal map has none), a negative dependence, or a constant target
        t = 1
        X = rng.integers(-2, 3, size=(n, f)) + int(rng.integers(2, 6))
        wv = -rng.integers(1, 3, size=(f, 1))
        Y = X @ wv + rng.integers(-1, 2, size=(n, 1)) + int(rng.integers(8, 20))
        Y = np.clip(Y, -25, 25)
        if rng.random() < 0.3:
            Y[:] = int(rng.integers(1, 6))
        est = "default"
    elif kind == "rankdef":
        # a linear fit of deficient rank: a repeated target column, or a duplicated source column (any data is valid data)
        f, t = max(f, 2), max(t, 2)
        X = rng.integers(-4, 5, size=(n, f))
        Y = rng.integers(-4, 5, size=(n, t))
        if rng.random() < 0.6:
            Y[:, -1] = Y[:, 0]
        else:
            X[:, -1] = X[:, 0]
    else:
        Y = rng.integers(-4, 5, size=(n, t))
        if kind == "noisy-linear":
            A = rng.integers(-2, 3, size=(f, t))
            Y = X @ A + rng.integers(-1, 2, size=(n, t))
    # user-supplied regularised estimators from nearly unbiased to strongly biased (the Procrustes target is y itself, not its fit)
    lin = None if est == "default" else (LinearRegression(fit_intercept=False) if est == "lr0" else Ridge(alpha=float(rng.choice([0.5, 30.0, 300.0])), fit_intercept=False))
    c = {"id": cid, "kind": kind + "/" + est, "padded": bool(padded), "X": X.astype(int).tolist(), "Y": Y.astype(int).tolist(), "Om": [],
         "Q": [] if (Q is None or not (f == t)) else Q.astype(int).tolist(), "Qden": int(Qden), "U": [], "Vt": [], "sv": [], "lincoef": [], "fullrank": False,
         "preds": [], "newX": [], "raised": False, "Rstar": []}
    if kind == "recover" and f != t:
        c["Q"] = []
        c["zero_res"] = True
    try:
        with warnings.catch_warnings():
            warnings.simplefilter("ignore")
            m = core.mk(OrthogonalRegression, use_orthogonal_projector=not padded, linear_estimator=lin)
            if lin is not None and rng.random() < 0.6:
                # history: the same estimator object (and its user-supplied linear estimator) was fitted on other data before
                m.fit(rng.integers(-4, 5, size=X.shape).astype(float), rng.integers(-4, 5, size=Y.shape).astype(float))
                c["kind"] += "/refit"
            # a single target may be given as a plain vector (documented: y of shape (n_samples,) or (n_samples, n_targets))
            y1 = Y.shape[1] == 1 and not padded and rng.random() < 0.5      # (projector mode reshapes a vector itself; the padded mode documents 2-D targets only)
            m.fit(X.astype(float), Y[:, 0].astype(float) if y1 else Y.astype(float))
            c["Om"] = fq(np.atleast_2d(np.asarray(m.coef_)).T)
            newX = rng.integers(-4, 5, size=(3, f))
            c["newX"] = newX.astype(int).tolist()
            c["preds"] = fq(np.reshape(m.predict(newX.astype(float)), (3, -1)))
            from scipy.linalg import orthogonal_procrustes
            if padded:
                # competitor witness: an orthogonal matrix (verified by the specification) whose residual the fit may not exceed
                c["Rstar"] = fq(orthogonal_procrustes(np.pad(X, [(0, 0), (0, p - f)]).astype(float), np.pad(Y, [(0, 0), (0, p - t)]).astype(float))[0])
            if not padded:
                from sklearn.base import clone
                le = clone(lin) if lin is not None else LinearRegression()
                le.fit(X.astype(float), Y.astype(float))
                coef = np.reshape(le.coef_.T, (f, -1))
                U, sv, Vt = np.linalg.svd(coef, full_matrices=False)          # witness, verified by the specification
                # singular vectors do not depend on the scale of the coefficients: small (strongly regularised) coefficients
                # are logged times a power of two so that the witness is verified at full fixed-point resolution
                sc = 2.0 ** max(0, -int(np.ceil(np.log2(max(np.abs(coef).max(), 1e-30)))))
                c["U"], c["Vt"], c["sv"], c["lincoef"] = fq(U), fq(Vt), fq(sv * sc), fq(coef * sc)
                c["fullrank"] = bool(sv[-1] > 1e-3 * max(sv[0], 1e-12) and sv[-1] * sc > 1e-2)
                c["Rstar"] = fq(orthogonal_procrustes(X.astype(float) @ U, Y.astype(float) @ Vt.T)[0])      # competitor between the reduced spaces
    except Exception as e:  # noqa
        c["raised"] = True
        c["msg"] = "%s: %s" % (type(e).__name__, str(e)[:100])
    return c


def gen(args):
    wid, n, sd = args
    rng = np.random.default_rng([sd, wid, 1818])
    out = []
    for i in core.timed(range(n)):
        kind = ["random", "noisy-linear", "recover", "random", "noisy-linear", "rankdef", "offset", "single-target"][i % 8]
        padded = bool(rng.integers(2)) if kind not in ("offset", "rankdef", "single-target") else False
        est = "default" if padded else ["default", "lr0", "ridge"][int(rng.integers(3))]
        out.append(case("w%d-%d" % (wid, i), rng, kind, padded, est))
    return out


KEYS = ("id", "kind", "padded", "X", "Y", "Om", "Q", "Qden", "U", "Vt", "sv", "lincoef", "fullrank", "preds", "newX", "raised", "Rstar")


def strip(c):
    return {k: c[k] for k in KEYS}


def run(tier):
    rep = core.Report("C18", tier)
    quick = tier == "quick"
    per = 8 if quick else 190
    with mp.Pool(core.NCPU) as pool:
        cases = [c for part in pool.map(gen, [(w, per, core.seed()) for w in range(core.NCPU)]) for c in part]
    verdicts, stats = core.validate_cases("trace/TraceOrthReg.tla", [strip(c) for c in cases], timeout=7200, chunks=core.NCPU)
    rep.add_trace_stats("TraceOrthReg", stats, len(cases))
    core.judge(rep, cases, verdicts)
    kinds = {}
    comp = 0
    for c in cases:
        k = c["kind"] + ("/padded" if c["padded"] else "/projector")
        kinds[k] = kinds.get(k, 0) + 1
        if c["padded"]:
            p = max(len(c["X"][0]), len(c["Y"][0]))
            comp += (2 ** p) * [1, 1, 2, 6, 24][p] if p <= 4 else 0
            comp += 8 * p * (p - 1) // 2
    rep.cov["cases_by_kind"] = kinds
    rep.cov["competitor_maps_evaluated_by_TLC"] = comp
    rep.sample({k: cases[0][k] for k in ("kind", "padded", "X", "Y", "Om")})
    rep.assumptions += ["integer X, Y; the thin SVD of the logged linear coefficients is a numpy witness verified by the specification",
                        "residual comparisons use a budget of 0.25 % of the residual plus 64 n p units of 2^-14"]
    return rep.finish()


def replay(path):
    return core.replay_recorded(path, "trace/TraceOrthReg.tla", strip)
