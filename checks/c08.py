"""C08 — greedy selection is history independent (prefix, restart, warm start)."""
import multiprocessing as mp
import warnings

import numpy as np

from harness import core

VARIANTS = [  # (name, extra kwargs, tag)
    ("fFPS", {}, ""), ("sFPS", {}, ""), ("fPCovFPS", {"mixing": 0.5}, ""), ("sPCovFPS", {"mixing": 0.25}, ""),
    ("VoronoiFPS", {"full_fraction": 0.3}, "ff0.3"), ("VoronoiFPS", {"full_fraction": 1.0}, "ff1"),
    ("fCUR", {"recompute_every": 1}, "re1"), ("fCUR", {"recompute_every": 0}, "re0"),
    ("sCUR", {"recompute_every": 1}, "re1"), ("sCUR", {"recompute_every": 0}, "re0"),
    ("fPCovCUR", {"recompute_every": 1, "mixing": 0.5}, "re1"), ("fPCovCUR", {"recompute_every": 0, "mixing": 0.5}, "re0"),
    ("sPCovCUR", {"recompute_every": 1, "mixing": 0.5}, "re1"), ("sPCovCUR", {"recompute_every": 0, "mixing": 0.75}, "re0"),
]


def project(H, obj, name, X, y, unit, exact, axis, family):
    """Projected public state of a fitted selector (integers)."""
    with warnings.catch_warnings():
        warnings.simplefilter("ignore")
        st = {"nsel": int(obj.n_selected_), "idx": [int(i) + 1 for i in obj.selected_idx_],
              "xsel": H.matching_items(np.asarray(obj.X_selected_), X, axis),
              "support": [bool(b) for b in obj.get_support()], "ysel": [], "table": [], "hsel": []}
        if axis == 0 and y is not None and hasattr(obj, "y_selected_"):
            yy = np.asarray(y, float).reshape(len(y), -1)
            st["ysel"] = H.matching_items(np.asarray(obj.y_selected_).reshape(-1, yy.shape[1]), yy, 0)
        if family == "fps":
            t = H.fps_tables(obj, unit) if exact else {"table": H.q(obj.get_distance(), unit), "hsel": H.q(obj.get_select_distance(), unit)}
            st["table"], st["hsel"] = t["table"], t["hsel"]
        else:
            st["table"] = H.q(obj.score(X, y), unit)      # the importance scores (public score method)
    return st


def gen(args):
    wid, jobs, sd = args
    from harness import selectors as H
    out = []
    for job in core.timed(jobs, 1800):
        vi, di, scheds = job[:3]
        N = job[3] if len(job) > 3 else 6
        name, extra, tag = VARIANTS[vi]
        cls, axis, family, needs_y = H.CLASSES[name]
        rng = np.random.default_rng([sd, di, 808, N])
        # data with rank above the number of selections; a few tie-rich sets for the FPS family
        tie_rich = family == "fps" and di % 4 == 3
        while True:
            A = rng.integers(0, 3, size=(N, N + 1)) if tie_rich else rng.integers(-6, 7, size=(N, N + 1))
            if np.linalg.matrix_rank(A) == N:     # input conditioning only
                break
        blockdata = family != "fps" and N == 6 and di % 3 == 1
        if blockdata:
            # two mutually orthogonal blocks of equal strength (distinct items, doubly degenerate leading singular value): which
            # vector of the leading eigenspace the iterative solver returns depends on its start vector only - the same for
            # every recomputation, so the chain still equals the cold fit
            B1 = np.array([[2, 1, 0], [0, 1, 2]]); B2 = np.array([[1, 2, 0], [1, 0, 2]])
            A = np.block([[B1, np.zeros((2, 3), int)], [np.zeros((2, 3), int), B2]]).T * int(rng.integers(1, 4))
            if (di // 3 + vi) % 2 == 0:
                # three blocks of equal strength: the leading singular value is STILL degenerate after the first selection has
                # weakened one block, i.e. at a decision that a warm-started chain and the cold fit reach by different numbers
                # of score recomputations
                Z = np.zeros((2, 2), int)
                # (blocks without a symmetry of their own - the two items of a block must not tie -, equal up to a swap of
                # rows and a sign, hence with the same singular values)
                B0 = np.array([[2, 1], [0, 1]])
                Bs = [B0, B0[::-1], B0 * np.array([1, -1])]
                A = np.block([[Bs[0], Z, Z], [Z, Bs[1], Z], [Z, Z, Bs[2]]]) * int(rng.integers(1, 4))
            A = A[rng.permutation(6)]
        X = (A if axis == 0 else A.T).astype(float)
        if name == "VoronoiFPS" and di % 2 == 1:
            # clustered points of different norms in two or three dimensions: the pruned update really skips cells here
            while True:
                dlow = int(rng.integers(2, 4))
                cen = rng.integers(-20, 21, size=(3, dlow))
                P2 = cen[rng.integers(0, 3, size=N)] + rng.integers(-2, 3, size=(N, dlow))
                if len(np.unique(P2, axis=0)) == N:
                    break
            X = P2.astype(float)
        # small unsigned integers now and then (counts, fingerprints): every fit of a chain has to convert them, products of
        # uint8 values wrap modulo 256 otherwise; the values are shifted to be non-negative first (any data is valid data)
        Xfit = X
        if family == "fps" and di % 3 == 2:
            X = X - X.min()
            Xfit = X.astype(np.uint8)
        y = rng.integers(-4, 5, size=X.shape[0]).astype(float) if (needs_y or di % 2 == 0) else None
        exact = name in ("fFPS", "sFPS", "VoronoiFPS", "sPCovFPS")
        unit = 16 if name == "sPCovFPS" else (2 if exact else (10000 if family == "fps" else 1000000))
        tol = 0 if exact else 3
        # CUR on data of full rank N: requesting ALL items is a request like any other (every second data set)
        nmax = N if (family == "fps" or (name in ("fCUR", "sCUR") and di % 2 == 0 and N <= 6)) else N - 1
        if blockdata:
            nmax = 3            # rank 4: the number of selections stays below the rank (the property's precondition)
        kw0 = dict(extra)
        if family == "fps":
            kw0["initialize"] = int(di % N)

        def fit_cold(k, **over):
            kw = dict(kw0)
            kw.update(over)
            o = cls(n_to_select=k, **kw)
            with warnings.catch_warnings():
                warnings.simplefilter("ignore")
                o.fit(Xfit, y) if y is not None else o.fit(Xfit)
            return o
        cold = {}
        tables = []
        for k in range(1, nmax + 1):
            o = core.mk(cls, n_to_select=k, **kw0)
            if k == nmax:
                rec = H.Recorder(o, name, Xfit, y, unit, exact)
                rec.fit(k, warm=False, with_y=y is not None, init=[])
                steps = [e for e in rec.events if e["a"] == "step"]
                ninit = 1 if family == "fps" else 0
                tables = [[] for _ in range(ninit)] + [e["score"] for e in steps]
                del o.score      # remove the instance-level wrapper again
            else:
                with warnings.catch_warnings():
                    warnings.simplefilter("ignore")
                    o.fit(Xfit, y) if y is not None else o.fit(Xfit)
            cold[k] = project(H, o, name, X, y, unit, exact, axis, family)
        coldseq = [cold[k] for k in range(1, nmax + 1)]
        base = {"n": N, "tol": tol, "cold": coldseq, "longest": nmax, "tables": tables, "warm_unfitted_accepted": False,
                "cls": name, "tag": tag, "X": X.tolist(), "y": None if y is None else y.tolist()}
        # (1) warm-start chains for every schedule TLC enumerated
        for s in scheds:
            if s[-1] > nmax:
                continue
            o = cls(**kw0)
            hist = []
            thr_on = (sum(s) + di) % 3 == 0          # interleave a threshold that is never reached
            for j, k in enumerate(s):
                o.n_to_select = k
                o.score_threshold = 1e-13 if (thr_on and j % 2 == 0) else None
                try:
                    with warnings.catch_warnings():
                        warnings.simplefilter("ignore")
                        o.fit(Xfit, y, warm_start=j > 0) if y is not None else o.fit(Xfit, warm_start=j > 0)
                    hist.append({"req": k, "raised": False, "st": project(H, o, name, X, y, unit, exact, axis, family)})
                except Exception as e:  # noqa
                    hist.append({"req": k, "raised": True, "st": {}, "msg": str(e)[:100]})
                    break
            c = dict(base)
            c.update({"id": "v%d-d%d-n%d-s%s" % (vi, di, N, "-".join(map(str, s))), "kind": "warm-chain", "history": hist, "sched": s})
            out.append(c)
        # (2) restart: FPS initialised with the already selected prefix
        if name in ("fFPS", "sFPS"):
            for k0 in range(1, nmax):
                pre = [i - 1 for i in cold[nmax]["idx"][:k0]]
                for k in (k0, nmax):
                    o = fit_cold(k, initialize=pre)
                    c = dict(base)
                    c.update({"id": "v%d-d%d-n%d-r%d-%d" % (vi, di, N, k0, k), "kind": "restart-from-prefix",
                              "history": [{"req": k, "raised": False, "st": project(H, o, name, X, y, unit, exact, axis, family)}]})
                    out.append(c)
        # (3) warm start on a never fitted selector is rejected
        o = cls(n_to_select=2, **kw0)
        try:
            with warnings.catch_warnings():
                warnings.simplefilter("ignore")
                o.fit(Xfit, y, warm_start=True) if y is not None else o.fit(Xfit, warm_start=True)
            acc = True
        except ValueError:
            acc = False
        c = dict(base)
        c.update({"id": "v%d-d%d-n%d-unfitted" % (vi, di, N), "kind": "warm-unfitted", "history": [], "warm_unfitted_accepted": acc})
        out.append(c)
        if family == "fps" and name != "VoronoiFPS":
            # a selector whose only fit FAILED (invalid `initialize`) has never been fitted either
            o = cls(n_to_select=2, **dict(kw0, initialize="no-such-initialisation"))
            acc2 = False
            try:
                with warnings.catch_warnings():
                    warnings.simplefilter("ignore")
                    try:
                        o.fit(Xfit, y) if y is not None else o.fit(Xfit)
                        failed_first = False
                    except Exception:
                        failed_first = True
                    if failed_first:
                        o.initialize = 0
                        o.fit(Xfit, y, warm_start=True) if y is not None else o.fit(Xfit, warm_start=True)
                        acc2 = True
            except Exception:
                acc2 = False
            c = dict(base)
            c.update({"id": "v%d-d%d-n%d-failedfirst" % (vi, di, N), "kind": "warm-unfitted", "history": [], "warm_unfitted_accepted": acc2})
            out.append(c)
    return out


def strip(c):
    return {k: c[k] for k in ("id", "n", "tol", "cold", "longest", "tables", "history", "warm_unfitted_accepted", "kind")}


def run(tier):
    rep = core.Report("C08", tier)
    quick = tier == "quick"
    for fam in ("cur0", "cur1", "fps"):
        r = core.model_check("GreedySelectorImpl.tla", "mc/GreedySelectorImpl_%s.cfg" % fam, timeout=1800)
        rep.add_mc("GreedySelectorImpl[%s]: chain = cold fit (HistIndep) and bookkeeping over all <=3-fit histories" % fam, r)
    r = core.run_tlc("Schedules.tla", cfg="mc/Schedules.cfg", workers=1)
    rep.add_mc("Schedules: every increasing schedule up to N=6", r)
    scheds = [b["sched"] for b in r["records"] if b.get("k") == "S"]
    if len(scheds) != 63:
        raise core.Machinery("expected 63 schedules, got %d" % len(scheds))
    rep.cov["exhaustive"] = True
    ndata = 3 if quick else 12
    jobs = [(vi, core.seed() * 100 + di, scheds) for vi in range(len(VARIANTS)) for di in range(ndata)]
    # larger instances: schedules up to N = 12 sampled by TLC's simulation mode
    r12 = core.run_tlc("Schedules.tla", cfg="mc/Schedules12.cfg", workers=1, simulate="num=%d" % (40 if quick else 400), depth=7,
                       extra=["-seed", str(core.seed() + 1)])
    if r12["error"]:
        raise core.Machinery("Schedules12 simulation: " + r12["error"])
    s12 = sorted({tuple(e["sched"]) for e in r12["records"] if e.get("k") == "S"})
    rep.cov["parts"]["Schedules N=12 (tlc -simulate)"] = {"distinct_schedules": len(s12)}
    for vi in range(len(VARIANTS)):
        chunk = [list(x) for x in s12[vi::len(VARIANTS)]]
        if chunk:
            jobs.append((vi, core.seed() * 100 + 50 + vi, chunk, 12))
    # the Voronoi variants keep per-point cell state across warm starts: more (clustered) data sets and longer schedules for them
    longs = [list(x) for x in s12 if len(x) >= 3][: (8 if quick else 60)]
    for vi in (4, 5):
        for dj in ((1, 3, 5) if quick else range(1, 40, 2)):
            if longs:
                jobs.append((vi, core.seed() * 100 + 60 + dj, longs, 12))
    parts = [(w, jobs[w::core.NCPU], core.seed()) for w in range(core.NCPU)]
    with mp.Pool(core.NCPU) as pool:
        cases = [c for part in pool.map(gen, parts) for c in part]
    verdicts, stats = core.validate_cases("trace/TraceHistory.tla", [strip(c) for c in cases])
    rep.add_trace_stats("TraceHistory", stats, len(cases))
    core.judge(rep, cases, verdicts)
    kinds, ties = {}, 0
    for c in cases:
        k = c["cls"] + (":" + c["tag"] if c["tag"] else "") + "/" + c["kind"]
        kinds[k] = kinds.get(k, 0) + 1
        ties += bool(verdicts[c["id"]].get("ctx", {}).get("tie"))
    rep.cov["cases_by_class_and_kind"] = kinds
    rep.cov["cases_with_a_tie_along_the_cold_fit"] = ties
    rep.cov["schedules"] = len(scheds)
    for c in cases[:2]:
        rep.sample({"cls": c["cls"], "kind": c["kind"], "sched": c.get("sched"), "cold_idx": c["cold"][-1]["idx"],
                    "history": [{"req": h["req"], "idx": h["st"].get("idx")} for h in c["history"]]})
    rep.assumptions += ["data sets have rank above the number of selections (property precondition)",
                        "CUR-family scores quantised to 1e-6, ties within 3 units stop the comparison at that decision"]
    return rep.finish()


def replay(path):
    return core.replay_recorded(path, "trace/TraceHistory.tla", strip)
