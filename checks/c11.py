"""C11 — StandardFlexibleScaler standardises w.r.t. the weighted training distribution."""
import multiprocessing as mp
import warnings

import numpy as np

from harness import core

S = 16384


def fq(a):
    a = np.asarray(a, float)
    if not np.all(np.isfinite(a)) or np.abs(a).max(initial=0) > 60000:
        return None
    return np.rint(a * S).astype(int).tolist()


def snap(a):
    a = np.asarray(a, float)
    r = np.rint(a)
    if np.all(np.abs(a - r) <= 1e-8 * (1 + np.abs(a))):
        return r.astype(int).tolist()
    return [[-7777777]]


def scaler_case(cid, kind, X, w, wm, ws, cw, atol=(0, 1), rtol=(0, 1), tiny=True, rng=None, extras=True):
    from skmatter.preprocessing import StandardFlexibleScaler
    X = np.asarray(X)
    n, m = X.shape
    c = {"id": cid, "kind": kind, "X": X.astype(int).tolist(), "w": [] if w is None else [int(v) for v in w],
         "wm": bool(wm), "ws": bool(ws), "cw": bool(cw), "atol": [int(atol[0]), int(atol[1])], "rtol": [int(rtol[0]), int(rtol[1])],
         "tiny": bool(tiny), "raised": False, "Tq": [], "Xrec": [], "news": [], "routes": []}
    kw = dict(with_mean=wm, with_std=ws, column_wise=cw, atol=1e-12 if tiny else atol[0] / atol[1], rtol=rtol[0] / rtol[1])
    if (n + m) % 3 == 0:
        kw["copy"] = bool((n + m) % 2)            # constructor form of the in-place switch
    Xf = X.astype(float)
    sw = None if w is None else np.asarray(w, float)
    try:
        with warnings.catch_warnings():
            warnings.simplefilter("ignore")
            sc = core.mk(StandardFlexibleScaler, **kw).fit(Xf, sample_weight=sw)
            # in-place forms (constructor copy=..., transform(copy=...)) on a private copy of the data: same values
            cp = [{}, {}, {"copy": True}, {"copy": False}][(n + 2 * m + len(kind)) % 4]
            T = sc.transform(Xf.copy(), **cp)
    except ValueError as e:
        c["raised"] = True
        c["msg"] = str(e)[:80]
        return c
    tq = fq(T)
    if tq is None:
        c["Tq"] = [[S * 2000] * m] * n     # out of range: the specification reports "magnitude"
        return c
    c["Tq"] = tq
    if not extras:
        return c
    c["Xrec"] = snap(sc.inverse_transform(T))
    rng = rng or np.random.default_rng(0)
    for _ in range(3):
        a, b, cc = (int(v) for v in rng.integers(0, n, size=3))
        xn = Xf[a] + Xf[b] - Xf[cc]
        tn = fq(sc.transform(xn.reshape(1, -1))[0])
        if tn is not None:
            c["news"].append({"a": a + 1, "b": b + 1, "c": cc + 1, "tq": tn})
    # routes
    def route(name, Xr, swr, sign=False, rows=None, sk=False):
        try:
            with warnings.catch_warnings():
                warnings.simplefilter("ignore")
                if sk:
                    from sklearn.preprocessing import StandardScaler
                    Tr = StandardScaler().fit(Xr).transform(Xr)
                else:
                    s2 = StandardFlexibleScaler(**kw).fit(Xr, sample_weight=swr)
                    Tr = s2.transform(Xr)
            if rows is not None:
                Tr = Tr[rows]
            q = fq(Tr)
            if q is not None:
                c["routes"].append({"name": name, "tq": q, "sign": bool(sign)})
        except ValueError:
            c["routes"].append({"name": name + "-raised", "tq": [[S * 3000] * m] * n, "sign": False})
    if w is not None and np.all(np.asarray(w) >= 0) and np.sum(w) > 0:
        rep = np.repeat(np.arange(n), np.asarray(w, int))
        first = [int(np.argmax(rep == i)) if (rep == i).any() else -1 for i in range(n)]
        if all(f >= 0 for f in first) and len(rep) >= 2:
            route("repeated-rows", Xf[rep], None, rows=first)
            # one large size: the same weighted sample written out as a few thousand rows (every row K times its weight; the
            # total is neither small nor a multiple of a power of two, and the tail consists of copies of the last rows only)
            if rng.random() < 0.4:
                K = int(rng.integers(1100, 2700)) // max(1, int(np.sum(w))) + 1
                repK = np.repeat(np.arange(n), np.asarray(w, int) * K)
                if len(repK) % 1024 == 0:
                    repK = np.repeat(np.arange(n), np.asarray(w, int) * (K + 1))
                firstK = [int(np.argmax(repK == i)) for i in range(n)]
                route("repeated-rows-large", Xf[repK], None, rows=firstK)
    if w is None and wm and ws and cw:
        route("sklearn-StandardScaler", Xf, None, sk=True)
    if wm and tiny:
        # small and very large offsets (a one-pass variance E[x^2] - E[x]^2 cancels catastrophically at 1e8 + O(1))
        big = float(rng.choice([1, 1, 2 ** 20, 2 ** 26]))
        route("shifted-input" if big == 1 else "shifted-input-by-large-offset", Xf + rng.integers(-9, 10, size=m) * big, sw)
    if ws and wm and tiny and rtol[0] == 0:
        a = float(rng.choice([-4, -0.5, 2, 8, 1e-4, 1e3]))       # also other units: a variance of 1e-8 is far above the default tolerance 1e-12
        route("rescaled-input", Xf * a, sw, sign=True)
    return c


def gen(args):
    wid, n, sd = args
    rng = np.random.default_rng([sd, wid, 1111])
    out = []
    for t in core.timed(range(n)):
        nn, m = int(rng.integers(2, 13)), int(rng.integers(1, 6))
        kind = ["plain", "scales", "offsets", "constcol", "lowvar"][int(rng.integers(5))]
        X = rng.integers(-6, 7, size=(nn, m))
        if kind == "scales":
            X = X * (2 ** rng.integers(0, 5, size=m))
        elif kind == "offsets":
            X = X + rng.integers(-40, 41, size=m)
        elif kind == "constcol":
            X[:, int(rng.integers(m))] = int(rng.integers(-5, 6))
        elif kind == "lowvar":
            X = rng.integers(0, 2, size=(nn, m)) + rng.integers(-20, 21, size=m)
        wk = int(rng.integers(4))
        w = None if wk == 0 else (np.ones(nn, int) * int(rng.integers(1, 4)) if wk == 1 else rng.integers(0, 4, size=nn))
        if w is not None and w.sum() == 0:
            w[0] = 1
        wm, ws, cw = (bool(v) for v in rng.integers(0, 2, size=3))
        tiny = rng.random() < 0.6
        atol = (0, 1) if tiny else [(1, 4), (2, 1), (1, 1), (10, 1)][int(rng.integers(4))]
        rtol = (0, 1) if tiny else [(0, 1), (0, 1), (1, 8), (1, 1)][int(rng.integers(4))]
        out.append(scaler_case("w%d-%d" % (wid, t), kind, X, w, wm, ws, cw, atol, rtol, tiny, rng))
    return out


def gen_enum(args):
    wid, cfgs = args
    out = []
    for k, e in core.timed(cfgs):
        w = None if not e["w"] else e["w"]
        out.append(scaler_case("e%d" % k, "enumerated", e["X"], w, e["wm"], e["ws"], e["cw"], extras=False))
    return out


KEYS = ("id", "kind", "X", "w", "wm", "ws", "cw", "atol", "rtol", "tiny", "raised", "Tq", "Xrec", "news", "routes")


def strip(c):
    return {k: c[k] for k in KEYS}


def run(tier):
    rep = core.Report("C11", tier)
    quick = tier == "quick"
    r = core.run_tlc("ScalerEnum.tla", cfg="mc/ScalerEnum.cfg", workers=1, heap="4g", timeout=1800)
    rep.add_mc("ScalerEnum: all 3x2 matrices over {-1,0,2} x 4 weightings x 8 flag combinations", r)
    cfgs = [(k, e) for k, e in enumerate(r["records"]) if e.get("k") == "E"]
    if len(cfgs) != 729 * 4 * 8:
        raise core.Machinery("expected 23328 enumerated configurations, got %d" % len(cfgs))
    rep.cov["exhaustive"] = not quick
    if quick:
        cfgs = cfgs[core.seed() % 16::16]
    per = 40 if quick else 400
    with mp.Pool(core.NCPU) as pool:
        cases = [c for part in pool.map(gen, [(w, per, core.seed()) for w in range(core.NCPU)]) for c in part]
        enum = [c for part in pool.map(gen_enum, [(w, cfgs[w::core.NCPU]) for w in range(core.NCPU)]) for c in part]
    allc = cases + enum
    verdicts, stats = core.validate_cases("trace/TraceScaler.tla", [strip(c) for c in allc], timeout=7200)
    rep.add_trace_stats("TraceScaler", stats, len(allc))
    core.judge(rep, allc, verdicts)
    rej = sum(1 for c in allc if c["raised"])
    rep.cov["configurations_replayed_from_TLC_enumeration"] = len(enum)
    rep.cov["rejected_fits"] = rej
    routes = {}
    for c in cases:
        for r_ in c["routes"]:
            routes[r_["name"]] = routes.get(r_["name"], 0) + 1
    rep.cov["routes"] = routes
    rep.sample({k: cases[0][k] for k in ("kind", "X", "w", "wm", "ws", "cw", "raised", "Tq")})
    rep.assumptions += ["integer matrices and integer weights; moments of the transformed data are evaluated by the specification in 2^-14 fixed point with magnitude-derived budgets"]
    return rep.finish()


def replay(path):
    return core.replay_recorded(path, "trace/TraceScaler.tla", strip)
