"""C14 — PCovR's projectors form a consistent, nested, orthogonal decomposition."""
import multiprocessing as mp

import numpy as np

from harness import core


def gen(args):
    wid, ncases, sd = args
    from harness import pcovr as P
    rng = np.random.default_rng([sd, wid, 1414])
    out = []
    for t in core.timed(range(ncases)):
        n, m = int(rng.integers(4, 9)), int(rng.integers(2, 6))
        Xi = P.centred_lattice(rng, n, m, 4, "lowrank" if rng.random() < 0.2 else "full")
        p = int(rng.integers(1, 3))
        Yi = P.centred_lattice(rng, n, p, 4)
        if rng.random() < 0.15:
            jf = int(rng.integers(m))
            if np.any(Xi[:, jf]):
                Yi[:, 0] = Xi[:, jf]                     # a target that is exactly one of the (non-empty) features
        if p == 2 and rng.random() < 0.2:
            Yi[:, 1] = Yi[:, 0]                              # the same property given twice (it counts twice in the objective)
        y1d = p == 1 and rng.random() < 0.6
        a = int(rng.integers(1, 9))
        Xn = rng.integers(-6, 7, size=(3, m))
        route14 = ["default", "default", "ridge", "ridgeS"][int(rng.integers(4))]     # also clearly regularised regressors
        fits, chains, bad = [], [], False
        for space in ("feature", "sample"):
            chain = []
            for k in range(1, min(n, m) + 1):
                r = P.fit_record(Xi, Yi, a, k, space, "full", route14, y1d=y1d, Xn=Xn)
                if r["raised"]:
                    bad = True
                    fits.append(r)
                    break
                chain.append(len(fits) + 1)
                fits.append(r)
            chains.append(chain)
        c = {"id": "w%d-%d" % (wid, t), "mode": "C14", "monoY": False, "X": Xi.tolist(), "Y": Yi.tolist(), "raised": bad,
             "fits": [P.public(f) for f in fits] if not bad else [], "chains": chains if not bad else [], "groups": []}
        if bad:
            c["msg"] = [f.get("msg") for f in fits if f["raised"]][:1]
        out.append(c)
    return out


def strip(c):
    return {k: c[k] for k in ("id", "mode", "X", "Y", "raised", "fits", "chains", "groups", "monoY")}


def run(tier):
    rep = core.Report("C14", tier)
    per = 8 if tier == "quick" else 100
    with mp.Pool(core.NCPU) as pool:
        cases = [c for part in pool.map(gen, [(w, per, core.seed()) for w in range(core.NCPU)]) for c in part]
    verdicts, stats = core.validate_cases("trace/TracePCovR.tla", [strip(c) for c in cases], timeout=7200, chunks=core.NCPU, heap="4g")
    rep.add_trace_stats("TracePCovR[C14]", stats, len(cases))
    core.judge(rep, cases, verdicts)
    rep.cov["fits_checked"] = sum(len(c["fits"]) for c in cases)
    f0 = cases[0]["fits"][0] if cases[0]["fits"] else {}
    rep.sample({"X": cases[0]["X"], "Y": cases[0]["Y"], "fit": {k: f0.get(k) for k in ("a", "k", "space", "solver", "lam", "T")}})
    rep.assumptions += ["centred lattice data (entries/4); identities among the implementation's own outputs are evaluated in 2^-14 fixed point with magnitude-derived budgets (about 1e-3 relative)"]
    return rep.finish()


def replay(path):
    return core.replay_recorded(path, "trace/TracePCovR.tla", strip)
