"""C09 — calls never modify caller data or hyper-parameters; refits start from scratch."""
import hashlib
import multiprocessing as mp
import warnings
import zlib

import numpy as np

from harness import core

LAYOUTS = ["C", "F", "readonly", "view", "f32"]


# ---------------------------------------------------------------------------------------
# digests and summaries (projections of state; nothing here is an expected value)

def digest(a):
    if a is None:
        return "none"
    if isinstance(a, (list, tuple)):
        return "[" + ",".join(digest(x) for x in a) + "]"
    a = np.asarray(a)
    h = hashlib.sha1()
    h.update(str(a.shape).encode() + str(a.dtype).encode())
    h.update(np.ascontiguousarray(a).tobytes())
    return h.hexdigest()[:16]


def crc(b):
    return int(zlib.crc32(b) & 0x3FFFFFFF)


def summary_of(name, v):
    """<<name, kind, shape, vals>> with integer vals"""
    if isinstance(v, (bool, np.bool_, int, np.integer, str)) or v is None:
        return [name, "exact", [], [crc(repr(v).encode())]]
    if isinstance(v, (float, np.floating)):
        v = np.array([float(v)])
    if isinstance(v, (list, tuple)) and v and all(isinstance(x, np.ndarray) for x in v):
        v = np.concatenate([np.ravel(x) for x in v])
    if isinstance(v, (list, tuple)):
        try:
            v = np.asarray(v)
        except Exception:
            return [name, "obj", [], []]
    if isinstance(v, np.ndarray):
        if v.dtype.kind in "biu":
            return [name, "exact", list(map(int, v.shape)), [crc(np.ascontiguousarray(v).tobytes())]]
        if v.dtype.kind == "f":
            x = np.ravel(v).astype(float)
            x = np.where(np.abs(x) < 1e-10, 0.0, x)      # rounding noise around zero (centred data) carries no information
            if not np.all(np.isfinite(x)):
                return [name, "exact", list(map(int, v.shape)), [crc(np.isfinite(x).tobytes())]]
            tot = np.abs(x).sum()
            if tot == 0:
                return [name, "num", list(map(int, v.shape)), [0, 0, 0, 0]]
            idx = np.arange(len(x))
            vals = [int(round(np.log2(tot) * 1000))]
            for k in (1, 2, 3):
                w = np.sin(idx * (0.7 * k) + k)
                vals.append(int(round(float((w * x).sum() / tot) * 1e6)))
            return [name, "num", list(map(int, v.shape)), vals]
    return [name, "obj", [], []]


def learned(obj):
    out = []
    for name in sorted(vars(obj)):
        if name.endswith("_") and not name.startswith("_"):
            out.append(summary_of(name, getattr(obj, name)))
    return out


def params_digest(obj):
    if not hasattr(obj, "get_params"):
        items = sorted((k, v) for k, v in vars(obj).items() if not k.endswith("_") and not k.startswith("_") and not callable(v))
    else:
        items = sorted(obj.get_params(deep=False).items())
    parts = []
    for k, v in items:
        if isinstance(v, np.ndarray):
            parts.append("%s=%s" % (k, digest(v)))
        elif callable(v) and not isinstance(v, type):
            parts.append("%s=<callable>" % k)
        else:
            parts.append("%s=%r" % (k, v))
    return hashlib.sha1(";".join(parts).encode()).hexdigest()[:16]


def lay(a, layout):
    """present the same values in a given memory layout"""
    if a is None or not isinstance(a, np.ndarray):
        return a
    if layout == "f32":
        return a.astype(np.float32) if a.dtype.kind == "f" else a.copy()
    if layout == "F":
        return np.asfortranarray(a.copy())
    if layout == "readonly":
        b = a.copy()
        b.flags.writeable = False
        return b
    if layout == "view":
        if a.ndim == 2:
            big = np.zeros((a.shape[0] * 2, a.shape[1] + 3), dtype=a.dtype)
            big[::2, 1:1 + a.shape[1]] = a
            return big[::2, 1:1 + a.shape[1]]
        big = np.zeros(a.shape[0] * 2, dtype=a.dtype)
        big[::2] = a
        return big[::2]
    return np.ascontiguousarray(a.copy())


class Rec:
    def __init__(self):
        self.events = []

    def call(self, op, fn, args, obj=None, key="", fresh=False, relation="", expect_raise=False, out_fn=None):
        """args: dict name -> caller-owned array (or list of arrays)"""
        before = {k: digest(v) for k, v in args.items()}
        pb = params_digest(obj) if (obj is not None and op == "fit") else ""
        raised, ret = "", None
        with warnings.catch_warnings():
            warnings.simplefilter("ignore")
            try:
                ret = fn()
            except Exception as e:  # noqa
                raised = "%s: %s" % (type(e).__name__, str(e)[:100])
        after = {k: digest(v) for k, v in args.items()}
        pa = params_digest(obj) if (obj is not None and op == "fit") else ""
        out = []
        if not raised:
            try:
                out = out_fn(ret) if out_fn else ([summary_of("ret", ret)] if op != "fit" else learned(obj))
            except Exception as e:  # noqa
                out = [["summary-failed", "exact", [], [crc(str(e).encode())]]]
        self.events.append({"op": op, "args": [{"name": k, "before": before[k], "after": after[k]} for k in sorted(args)],
                            "pbefore": pb, "pafter": pa, "self": bool(ret is obj) if op == "fit" else True, "raised": raised,
                            "expect_raise": bool(expect_raise), "key": key, "fresh": bool(fresh), "relation": relation, "out": out})
        return ret, raised


# ---------------------------------------------------------------------------------------
# data sets

def make_data(rng, which):
    # A and C have the same shape (anything cached by shape must still be refreshed), B has fewer samples
    n, m = (12, 6) if which == "B" else (14, 6)
    X = rng.normal(size=(n, m)) * {"A": 1.0, "B": 2.0, "C": 0.6}[which] + {"A": 0.0, "B": 0.3, "C": -0.2}[which]
    X -= X.mean(axis=0)
    y = X @ rng.normal(size=m) + 0.1 * rng.normal(size=n)
    y -= y.mean()
    Y2 = np.column_stack([y, X[:, 0] * 0.5 - X[:, 1] + 0.05 * rng.normal(size=n)])
    Y2 -= Y2.mean(axis=0)
    w = rng.integers(1, 4, size=n).astype(float)
    return {"X": X, "y": y, "Y2": Y2, "w": w, "name": which}


# ---------------------------------------------------------------------------------------
# estimator catalogue: name -> (factory(size), y-mode, fit(obj, data, withy, layout) -> (fn, args), ops)

def catalogue():
    import skmatter.feature_selection as F
    import skmatter.sample_selection as Sm
    from skmatter.decomposition import KernelPCovR, PCovR
    from skmatter.linear_model import OrthogonalRegression, Ridge2FoldCV
    from skmatter.preprocessing import KernelNormalizer, SparseKernelCenterer, StandardFlexibleScaler
    cat = {}

    def sel(cls, needs_y, feature, **kw):
        def factory(size):
            return cls(n_to_select=2 if size == "small" else 4, **kw)

        def fit(obj, d, wy, layout):
            X = lay(d["X"], layout)
            if wy or needs_y:
                y = lay(d["y"], layout)
                return (lambda: obj.fit(X, y)), {"X": X, "y": y}
            return (lambda: obj.fit(X)), {"X": X}
        ops = []
        if feature:
            ops.append(("transform", lambda obj, d, layout: ((lambda X=lay(d["X"], layout): (lambda: obj.transform(X), {"X": X}))())))

        # a warm-started continuation by one more selection is a call like any other: it must not touch the caller's arrays
        def warm(obj, d, layout):
            X, y = lay(d["X"], layout), lay(d["y"], layout)
            had_y = hasattr(obj, "y_selected_") or needs_y

            def fn():
                obj.n_to_select = int(obj.n_selected_) + 1
                if had_y:
                    obj.fit(X, y, warm_start=True)
                else:
                    obj.fit(X, warm_start=True)
                return np.asarray(obj.selected_idx_).copy()
            return fn, ({"X": X, "y": y} if had_y else {"X": X})
        ops.append(("warm_fit", warm))
        return (factory, "required" if needs_y else "optional", fit, ops)
    cat["feature.FPS"] = sel(F.FPS, False, True)
    cat["feature.CUR"] = sel(F.CUR, False, True)
    cat["feature.PCovFPS"] = sel(F.PCovFPS, True, True, mixing=0.5)
    cat["feature.PCovCUR"] = sel(F.PCovCUR, True, True, mixing=0.5)
    cat["sample.FPS"] = sel(Sm.FPS, False, False)
    cat["sample.CUR"] = sel(Sm.CUR, False, False)
    cat["sample.PCovFPS"] = sel(Sm.PCovFPS, True, False, mixing=0.5)
    cat["sample.PCovCUR"] = sel(Sm.PCovCUR, True, False, mixing=0.5)
    cat["sample.VoronoiFPS"] = sel(Sm.VoronoiFPS, False, False, full_fraction=0.4)
    cat["sample.VoronoiFPS[calibrated]"] = sel(Sm.VoronoiFPS, False, False)

    def xy_est(make, ops_names, ymat=True):
        def factory(size):
            return make(size)

        def fit(obj, d, wy, layout):
            X, Y = lay(d["X"], layout), lay(d["Y2"] if ymat else d["y"], layout)
            return (lambda: obj.fit(X, Y)), {"X": X, "Y": Y}
        ops = []
        for nm in ops_names:
            def mk(nm):
                def op(obj, d, layout):
                    X = lay(d["X"], layout)
                    if nm == "score":
                        Y = lay(d["Y2"] if ymat else d["y"], layout)
                        return (lambda: obj.score(X, Y)), {"X": X, "Y": Y}
                    return (lambda: getattr(obj, nm)(X)), {"X": X}
                return op
            ops.append((nm, mk(nm)))
        return (factory, "required", fit, ops)
    cat["PCovR"] = xy_est(lambda s: PCovR(mixing=0.5, n_components=2 if s == "small" else 3), ["transform", "predict", "score"])
    cat["PCovR[sample]"] = xy_est(lambda s: PCovR(mixing=0.3, n_components=2 if s == "small" else 3, space="sample"), ["transform", "predict"])
    cat["KernelPCovR"] = xy_est(lambda s: KernelPCovR(mixing=0.5, n_components=2 if s == "small" else 3, kernel="rbf", gamma=0.1), ["transform", "predict", "score"])
    cat["KernelPCovR[center]"] = xy_est(lambda s: KernelPCovR(mixing=0.5, n_components=2 if s == "small" else 3, kernel="linear", center=True), ["transform", "predict"])
    cat["Ridge2FoldCV"] = xy_est(lambda s: Ridge2FoldCV(alphas=[1e-3, 1e-1] if s == "small" else [1e-4, 1e-2, 1.0], random_state=0), ["predict"])
    cat["OrthogonalRegression[projector]"] = xy_est(lambda s: OrthogonalRegression(use_orthogonal_projector=True), ["predict"])
    cat["OrthogonalRegression[padded]"] = xy_est(lambda s: OrthogonalRegression(use_orthogonal_projector=False), ["predict"])
    from sklearn.linear_model import LinearRegression as _LR, Ridge as _Ridge
    cat["OrthogonalRegression[user estimator]"] = xy_est(lambda s: OrthogonalRegression(linear_estimator=_LR()), ["predict"])
    cat["PCovR[user regressor]"] = xy_est(lambda s: PCovR(mixing=0.5, n_components=2 if s == "small" else 3, regressor=_Ridge(alpha=0.1, fit_intercept=False)), ["transform", "predict"])

    def kpre_entry(center):
        from sklearn.kernel_ridge import KernelRidge

        def factory(size):
            return KernelPCovR(mixing=0.5, n_components=2 if size == "small" else 3, kernel="precomputed", center=center,
                               regressor=KernelRidge(alpha=0.1, kernel="precomputed"))

        def kern(d):
            return np.exp(-0.1 * ((d["X"][:, None, :] - d["X"][None, :, :]) ** 2).sum(-1))

        def fit(obj, d, wy, layout):
            K, Y = lay(kern(d), layout), lay(d["Y2"], layout)
            return (lambda: obj.fit(K, Y)), {"K": K, "Y": Y}
        ops = [("transform", lambda obj, d, layout: ((lambda K=lay(kern(d), layout): (lambda: obj.transform(K), {"K": K}))())),
               ("predict", lambda obj, d, layout: ((lambda K=lay(kern(d), layout): (lambda: obj.predict(K), {"K": K}))())),
               ("score", lambda obj, d, layout: ((lambda K=lay(kern(d), layout), Y=lay(d["Y2"], layout): (lambda: obj.score(K, Y), {"K": K, "Y": Y}))()))]
        return (factory, "required", fit, ops)
    cat["KernelPCovR[precomputed]"] = kpre_entry(False)
    cat["KernelPCovR[precomputed,center]"] = kpre_entry(True)

    def pcovr_pre_entry():
        def factory(size):
            return PCovR(mixing=0.5, n_components=2 if size == "small" else 3, regressor="precomputed")

        def fit(obj, d, wy, layout):
            X = lay(d["X"], layout)
            W0 = np.linalg.lstsq(d["X"], d["Y2"], rcond=None)[0]
            Yh, W = lay(d["X"] @ W0, layout), lay(W0, layout)
            if wy:
                return (lambda: obj.fit(X, Yh, W)), {"X": X, "Yhat": Yh, "W": W}
            return (lambda: obj.fit(X, Yh)), {"X": X, "Yhat": Yh}
        ops = [("transform", lambda obj, d, layout: ((lambda X=lay(d["X"], layout): (lambda: obj.transform(X), {"X": X}))())),
               ("predict", lambda obj, d, layout: ((lambda X=lay(d["X"], layout): (lambda: obj.predict(X), {"X": X}))()))]
        return (factory, "optional", fit, ops)
    cat["PCovR[precomputed]"] = pcovr_pre_entry()

    def kde_entry():
        from skmatter.neighbors import SparseKDE
        base = make_data(np.random.default_rng(77), "A")

        def factory(size):
            return SparseKDE(base["X"][:, :2].copy(), base["w"].copy(), fpoints=0.3 if size == "small" else 0.5)

        def fit(obj, d, wy, layout):
            G = lay(np.ascontiguousarray(d["X"][::2, :2]), layout)
            return (lambda: obj.fit(G)), {"G": G}
        ops = [("score_samples", lambda obj, d, layout: ((lambda Q=lay(d["X"][1::3, :2] + 0.05, layout): (lambda: obj.score_samples(Q), {"Q": Q}))())),
               ("score", lambda obj, d, layout: ((lambda Q=lay(d["X"][1::3, :2] + 0.05, layout): (lambda: obj.score(Q), {"Q": Q}))()))]
        return (factory, "none", fit, ops)
    cat["SparseKDE"] = kde_entry()

    def qs_entry():
        from skmatter.clustering import QuickShift

        def factory(size):
            return QuickShift(gabriel_shell=1 if size == "small" else 2)

        def fit(obj, d, wy, layout):
            X, w = lay(np.ascontiguousarray(d["X"][:, :2]), layout), lay(d["w"] + np.arange(len(d["w"])) * 0.01, layout)
            return (lambda: obj.fit(X, samples_weight=w)), {"X": X, "w": w}
        return (factory, "none", fit, [])
    cat["QuickShift[gabriel]"] = qs_entry()

    def scaler_entry():
        def factory(size):
            return StandardFlexibleScaler(column_wise=(size == "large"))

        def fit(obj, d, wy, layout):
            X = lay(d["X"], layout)
            if wy:
                w = lay(d["w"], layout)
                return (lambda: obj.fit(X, sample_weight=w)), {"X": X, "w": w}
            return (lambda: obj.fit(X)), {"X": X}
        ops = [("transform", lambda obj, d, layout: ((lambda X=lay(d["X"], layout): (lambda: obj.transform(X), {"X": X}))())),
               ("inverse_transform", lambda obj, d, layout: ((lambda X=lay(d["X"], layout): (lambda: obj.inverse_transform(X), {"X": X}))()))]
        return (factory, "optional", fit, ops)
    cat["StandardFlexibleScaler"] = scaler_entry()

    def kn_entry():
        def factory(size):
            return KernelNormalizer(with_trace=(size == "small"))

        def fit(obj, d, wy, layout):
            K = lay(d["X"] @ d["X"].T, layout)
            if wy:
                w = lay(d["w"], layout)
                return (lambda: obj.fit(K, sample_weight=w)), {"K": K, "w": w}
            return (lambda: obj.fit(K)), {"K": K}
        ops = [("transform", lambda obj, d, layout: ((lambda K=lay(d["X"] @ d["X"].T, layout): (lambda: obj.transform(K), {"K": K}))()))]
        return (factory, "optional", fit, ops)
    cat["KernelNormalizer"] = kn_entry()

    def skc_entry():
        def factory(size):
            return SparseKernelCenterer(with_trace=(size == "small"))

        def fit(obj, d, wy, layout):
            A = d["X"][:4]
            Knm, Kmm = lay(d["X"] @ A.T, layout), lay(A @ A.T, layout)
            if wy:
                w = lay(d["w"], layout)
                return (lambda: obj.fit(Knm, Kmm, sample_weight=w)), {"Knm": Knm, "Kmm": Kmm, "w": w}
            return (lambda: obj.fit(Knm, Kmm)), {"Knm": Knm, "Kmm": Kmm}
        ops = [("transform", lambda obj, d, layout: ((lambda K=lay(d["X"] @ d["X"][:4].T, layout): (lambda: obj.transform(K), {"Knm": K}))()))]
        return (factory, "optional", fit, ops)
    cat["SparseKernelCenterer"] = skc_entry()

    def dch_entry():
        def factory(size):
            return Sm.DirectionalConvexHull(low_dim_idx=[0] if size == "small" else [0, 1])

        def fit(obj, d, wy, layout):
            X, y = lay(d["X"], layout), lay(d["y"], layout)
            return (lambda: obj.fit(X, y)), {"X": X, "y": y}
        ops = [("score_samples", lambda obj, d, layout: ((lambda X=lay(d["X"], layout), y=lay(d["y"], layout): (lambda: obj.score_samples(X, y), {"X": X, "y": y}))())),
               ("score_feature_matrix", lambda obj, d, layout: ((lambda X=lay(d["X"], layout): (lambda: obj.score_feature_matrix(X), {"X": X}))()))]
        return (factory, "required", fit, ops)
    cat["DirectionalConvexHull"] = dch_entry()
    # hyper-parameter switches between the fits of a history ("small" / "large" select the two settings).  Only behaviour is
    # compared for these entries (follow-up calls against a fresh estimator with the new setting): an unused attribute left
    # behind by the other setting (centerer_, max_components_) is not a difference the property talks about.
    cat["KernelPCovR[center switch]"] = xy_est(lambda s: KernelPCovR(mixing=0.5, n_components=2, kernel="rbf", gamma=0.1, center=(s == "small")),
                                               ["transform", "predict", "score"])
    # documented-as-ignored arguments are still the caller's objects: a named kernel together with a kernel_params dict
    cat["KernelPCovR[named kernel + kernel_params]"] = xy_est(lambda s: KernelPCovR(mixing=0.5, n_components=2 if s == "small" else 3, kernel="rbf", gamma=0.1,
                                                                                      kernel_params={"length": 1.5}), ["transform", "predict", "score"])
    # reconstruction is only available when it was asked for at THIS fit: the follow-up call reports either the reconstruction
    # or the fact that the estimator refuses (a fresh estimator with fit_inverse_transform=False has nothing to reconstruct with)
    def kp_inverse(obj, d, layout):
        X = lay(d["X"], layout)

        def fn():
            T = obj.transform(X)
            try:
                return obj.inverse_transform(T)
            except (AttributeError, NotFittedError):
                return np.zeros((1, 1))
        return fn, {"X": X}
    from sklearn.exceptions import NotFittedError
    e_ = xy_est(lambda s: KernelPCovR(mixing=0.5, n_components=2, kernel="linear", fit_inverse_transform=(s == "small")), ["transform", "predict"])
    cat["KernelPCovR[inverse-transform switch]"] = e_[:3] + (e_[3] + [("inverse_transform", kp_inverse)],)
    # further switches (behaviour of the follow-up calls only; selectors and clustering: the selection / labels themselves)
    from skmatter.neighbors import SparseKDE as _KDE
    from skmatter.clustering import QuickShift as _QS
    _kb = make_data(np.random.default_rng(77), "A")
    cat["SparseKDE[fpoints/fspread switch]"] = ((lambda s: _KDE(_kb["X"][:, :2].copy(), _kb["w"].copy(), fpoints=0.3) if s == "small"
                                                 else _KDE(_kb["X"][:, :2].copy(), _kb["w"].copy(), fspread=0.6)),) + cat["SparseKDE"][1:]
    cat["QuickShift[cut/gabriel switch*]"] = ((lambda s: _QS(gabriel_shell=1) if s == "small" else _QS(dist_cutoff_sq=1.5)),) + cat["QuickShift[gabriel]"][1:]
    cat["Ridge2FoldCV[method switch]"] = xy_est(lambda s: Ridge2FoldCV(alphas=[1e-3, 1e-1, 0.5], random_state=0, regularization_method="tikhonov" if s == "small" else "cutoff",
                                                                        alpha_type="absolute" if s == "small" else "relative"), ["predict"])
    cat["PCovR[solver switch]"] = xy_est(lambda s: PCovR(mixing=0.5, n_components=2, svd_solver="full" if s == "small" else "arpack", random_state=0), ["transform", "predict", "score"])
    cat["PCovR[regressor switch]"] = xy_est(lambda s: PCovR(mixing=0.5, n_components=2, regressor=None if s == "small" else _Ridge(alpha=0.1, fit_intercept=False)), ["transform", "predict"])
    cat["KernelPCovR[kernel switch]"] = xy_est(lambda s: KernelPCovR(mixing=0.5, n_components=2, kernel="rbf" if s == "small" else "linear", gamma=0.1), ["transform", "predict", "score"])
    cat["feature.CUR[recompute switch*]"] = (lambda s: F.CUR(n_to_select=3, recompute_every=1 if s == "small" else 0),) + cat["feature.CUR"][1:]
    cat["sample.FPS[initialize switch*]"] = (lambda s: Sm.FPS(n_to_select=3, initialize=0 if s == "small" else [2, 1]),) + cat["sample.FPS"][1:]
    cat["feature.PCovCUR[mixing switch*]"] = (lambda s: F.PCovCUR(n_to_select=3, mixing=0.9 if s == "small" else 0.1),) + cat["feature.PCovCUR"][1:]
    cat["sample.PCovFPS[threshold switch*]"] = (lambda s: Sm.PCovFPS(n_to_select=4, mixing=0.5, score_threshold=None if s == "small" else 1e-12),) + cat["sample.PCovFPS"][1:]
    cat["PCovR[space switch]"] = xy_est(lambda s: PCovR(mixing=0.5, n_components=2, space="feature" if s == "small" else "sample"), ["transform", "predict", "score"])
    cat["OrthogonalRegression[mode switch]"] = xy_est(lambda s: OrthogonalRegression(use_orthogonal_projector=(s == "small")), ["predict"])
    cat["KernelNormalizer[center switch]"] = (lambda size: KernelNormalizer(with_center=(size == "small")),) + cat["KernelNormalizer"][1:]
    cat["SparseKernelCenterer[center switch]"] = (lambda size: SparseKernelCenterer(with_center=(size == "small")),) + cat["SparseKernelCenterer"][1:]
    cat["StandardFlexibleScaler[mean/std switch]"] = (lambda size: StandardFlexibleScaler(with_mean=(size == "small"), with_std=(size != "small")),) + cat["StandardFlexibleScaler"][1:]
    return cat


def est_trace(tid, name, entry, hist, dataA, dataB, layout, dataC=None):
    """Replay of one TLC-enumerated history on one catalogue class."""
    factory, ymode, fit, ops = entry
    rec = Rec()
    data = {"A": dataA, "B": dataB, "C": dataC}
    fit_out = (lambda ret: []) if "switch" in name else None        # behaviour-only entries: see catalogue()
    if "switch*" in name:
        # selectors / clustering: what was selected (the labels) IS the behaviour
        fit_out = lambda ret: [summary_of(a, getattr(ret, a)) for a in ("selected_idx_", "labels_", "cluster_centers_idx_") if hasattr(ret, a)]  # noqa

    base_layout = "f32" if layout == "f32" else "C"      # single-precision inputs have their own registers

    def key(d, wy, size, op="fit"):
        return "%s|%s|%s|%s|%s|%s" % (name, d, wy or ymode == "required", size, op, base_layout)
    # registers: fresh estimators for every step of the history (and their follow-up calls)
    seen = set()
    for st in hist:
        k = (st["d"], bool(st["y"]) or ymode == "required", st["n"])
        if k in seen:
            continue
        seen.add(k)
        o = factory(st["n"])
        fn, args = fit(o, data[st["d"]], st["y"], base_layout)
        _, raised = rec.call("fit", fn, args, obj=o, key=key(*k), fresh=True, out_fn=fit_out)
        if not raised:
            for opn, op in ops:
                fn2, a2 = op(o, data[st["d"]], base_layout)
                rec.call(opn, fn2, a2, obj=o, key=key(*k, op=opn), fresh=True)
    # the history on one object
    o = factory(hist[0]["n"])
    for i, st in enumerate(hist):
        wy = bool(st["y"]) or ymode == "required"
        # hyper-parameters of this step (copied attribute-wise: VoronoiFPS hides n_to_select from get_params)
        for kk, vv in vars(factory(st["n"])).items():
            if not kk.endswith("_") and not kk.startswith("_"):
                if hasattr(vv, "fit") and type(getattr(o, kk, None)) is type(vv):
                    continue          # a user-supplied sub-estimator stays the SAME instance across the history
                setattr(o, kk, vv)
        fn, args = fit(o, data[st["d"]], st["y"], layout)
        _, raised = rec.call("fit", fn, args, obj=o, key=key(st["d"], wy, st["n"]), relation="refit" if i > 0 else "repeat", out_fn=fit_out)
        if raised:
            break
        # another INSTANCE of the same class is fitted on other data in between (state shared through class attributes, module
        # globals or mutable default arguments would leak into the follow-up calls of `o`)
        if (i + len(hist)) % 2 == 0:
            try:
                other = factory("large" if st["n"] == "small" else "small")
                fn_o, _ = fit(other, data["B" if st["d"] != "B" else "C"], st["y"], base_layout)
                with warnings.catch_warnings():
                    warnings.simplefilter("ignore")
                    fn_o()
                    for _, op in ops:
                        f2_, _a = op(other, data["B" if st["d"] != "B" else "C"], base_layout)
                        f2_()
            except Exception:
                pass
        # follow-up calls after EVERY fit of the history (lazily cached state must not survive a refit)
        for opn, op in ops:
            fn2, a2 = op(o, data[st["d"]], layout)
            rec.call(opn, fn2, a2, obj=o, key=key(st["d"], wy, st["n"], op=opn), relation="refit")
    # fit_transform = fit ; transform (where available)
    st = hist[-1]
    o2 = factory(st["n"])
    if hasattr(o2, "fit_transform") and any(opn == "transform" for opn, _ in ops) and not name.startswith("sample.") and "precomputed" not in name:
        d = data[st["d"]]
        wy = bool(st["y"]) or ymode == "required"
        try:
            if name.startswith("SparseKernelCenterer"):
                A = d["X"][:4]
                Knm, Kmm = d["X"] @ A.T, A @ A.T
                args = {"Knm": Knm, "Kmm": Kmm}
                fn = (lambda: o2.fit_transform(Knm, Kmm, sample_weight=d["w"])) if st["y"] else (lambda: o2.fit_transform(Knm, Kmm))
            elif name.startswith("KernelNormalizer"):
                K = d["X"] @ d["X"].T
                args = {"K": K}
                fn = (lambda: o2.fit_transform(K, sample_weight=d["w"])) if st["y"] else (lambda: o2.fit_transform(K))
            elif name.startswith("StandardFlexibleScaler"):
                X = d["X"].copy(); args = {"X": X}
                fn = (lambda: o2.fit_transform(X, sample_weight=d["w"])) if st["y"] else (lambda: o2.fit_transform(X))
            elif name.startswith("feature."):
                X = d["X"].copy(); args = {"X": X}
                fn = (lambda: o2.fit_transform(X, d["y"])) if wy else (lambda: o2.fit_transform(X))
            else:
                X = d["X"].copy(); Y = d["Y2"].copy(); args = {"X": X, "Y": Y}
                fn = lambda: o2.fit_transform(X, Y)
            rec.call("fit_transform", fn, args, obj=o2, key=key(st["d"], wy, st["n"], op="transform"), relation="fit_transform")
        except Exception:
            pass
    return {"id": tid, "entry": name, "layout": layout, "scenario": "history:" + "".join("%s%s%s" % (s["d"], "y" if s["y"] else "-", s["n"][0]) for s in hist),
            "events": rec.events}


# ---------------------------------------------------------------------------------------
# function / constructor catalogue (purity, determinism)

def func_traces(rng, dataA, layout, tag):
    from skmatter.clustering import QuickShift
    from skmatter.neighbors import SparseKDE
    from skmatter import metrics as M
    from skmatter.utils import X_orthogonalizer, Y_feature_orthogonalizer, Y_sample_orthogonalizer
    from skmatter.model_selection import train_test_split
    out = []
    d = dataA
    X, y, Y2 = d["X"], d["y"], d["Y2"]

    def pure(name, build):
        """build(layout) -> (fn, args); run twice for determinism"""
        rec = Rec()
        fn, args = build("C")
        rec.call(name, fn, args, key=name, fresh=True)
        fn, args = build(layout)
        rec.call(name, fn, args, key=name, relation="repeat")
        out.append({"id": "%s-%s-%s" % (tag, name, layout), "entry": name, "layout": layout, "scenario": "function", "events": rec.events})
    # QuickShift: constructor takes the cut-off array
    def qs(l):
        cuts = lay(np.full(len(X), 4.0), l)
        w = lay(np.arange(len(X), dtype=float), l)
        Xl = lay(X[:, :2], l)
        return (lambda: (lambda m: [m.labels_, m.cluster_centers_idx_])(QuickShift(dist_cutoff_sq=cuts, scale=2.0).fit(Xl, samples_weight=w))), {"cuts": cuts, "w": w, "X": Xl}
    pure("QuickShift(ctor+fit)", qs)
    def qsg(l):
        w = lay(np.arange(len(X), dtype=float), l); Xl = lay(X[:, :2], l)
        return (lambda: (lambda m: [m.labels_, m.cluster_centers_idx_])(QuickShift(gabriel_shell=2).fit(Xl, samples_weight=w))), {"w": w, "X": Xl}
    pure("QuickShift[gabriel]", qsg)
    def kde(l):
        D = lay(X[:, :2], l); w = lay(d["w"], l); G = lay(X[::3, :2], l); Q = lay(X[1::4, :2] + 0.1, l)
        return (lambda: (lambda k: [k.bandwidth_, k.score_samples(Q), np.array([k.score(Q)])])(SparseKDE(D, w, fpoints=0.5).fit(G))), {"D": D, "w": w, "G": G, "Q": Q}
    pure("SparseKDE(ctor+fit+score)", kde)
    tr, te = np.arange(0, len(X), 2), np.arange(1, len(X), 2)
    for fname in ("pointwise_global_reconstruction_error", "global_reconstruction_error", "pointwise_global_reconstruction_distortion",
                  "global_reconstruction_distortion"):
        def b(l, fname=fname):
            Xl, Yl, a, b_ = lay(X, l), lay(Y2, l), lay(tr, l), lay(te, l)
            return (lambda: getattr(M, fname)(Xl, Yl, train_idx=a, test_idx=b_)), {"X": Xl, "Y": Yl, "train_idx": a, "test_idx": b_}
        pure(fname, b)
    for fname in ("pointwise_local_reconstruction_error", "local_reconstruction_error"):
        def b(l, fname=fname):
            Xl, Yl, a, b_ = lay(X, l), lay(Y2, l), lay(tr, l), lay(te, l)
            return (lambda: getattr(M, fname)(Xl, Yl, 5, train_idx=a, test_idx=b_)), {"X": Xl, "Y": Yl, "train_idx": a, "test_idx": b_}
        pure(fname, b)
    def lpr(l):
        trn = [lay(X[:5], l), lay(X[5:9], l), lay(X[9:], l)]; tst = [lay(X[:3], l), lay(X[3:4], l)]
        return (lambda: M.local_prediction_rigidity(trn, tst, 0.1)[0]), {"train": trn, "test": tst}
    pure("local_prediction_rigidity", lpr)
    def cpr(l):
        trn = [lay(X[:5], l), lay(X[5:9], l), lay(X[9:], l)]; tst = [lay(X[:3], l), lay(X[3:4], l)]; cd = lay(np.array([2, 4]), l)
        return (lambda: (lambda r: [r[0]] + list(r[1]))(M.componentwise_prediction_rigidity(trn, tst, 0.1, cd))), {"train": trn, "test": tst, "comp_dims": cd}
    pure("componentwise_prediction_rigidity", cpr)
    def ppd(l):
        Xl, Yl, c = lay(X[:, :3], l), lay(X[::2, :3], l), lay(np.array([3.0, 4.0, 5.0]), l)
        return (lambda: M.periodic_pairwise_euclidean_distances(Xl, Yl, cell_length=c)), {"X": Xl, "Y": Yl, "cell": c}
    pure("periodic_pairwise_euclidean_distances", ppd)
    def pmd(l):
        Xl, Yl, c = lay(X[:, :3], l), lay(X[::2, :3], l), lay(np.array([3.0, 4.0, 5.0]), l)
        P = lay(np.array([np.eye(3), np.diag([1.0, 2.0, 3.0])]), "C")
        return (lambda: M.pairwise_mahalanobis_distances(Xl, Yl, P, c)), {"X": Xl, "Y": Yl, "cov_inv": P, "cell": c}
    pure("pairwise_mahalanobis_distances", pmd)
    def xo(l):
        Xl = lay(X, l)
        return (lambda: X_orthogonalizer(Xl, c=1, copy=True)), {"x1": Xl}
    pure("X_orthogonalizer(copy=True)", xo)
    def xo2(l):
        Xl, x2 = lay(X, l), lay(X[:, :2] + 1.0, l)
        return (lambda: X_orthogonalizer(Xl, x2=x2, copy=True)), {"x1": Xl, "x2": x2}
    pure("X_orthogonalizer(x2,copy=True)", xo2)
    from skmatter.utils import effdim, oas, pcovr_covariance, pcovr_kernel
    import skmatter.feature_selection as _F
    import skmatter.sample_selection as _S

    def fps_init(l):
        # index lists are caller data too: the array of initial indices given to the constructor
        init = lay(np.array([2, 0]), l)
        Xl = lay(X, l)
        return (lambda: (lambda m_: [m_.selected_idx_, m_.X_selected_])(_S.FPS(initialize=init, n_to_select=4).fit(Xl))), {"initialize": init, "X": Xl}
    pure("sample.FPS(initialize=array)", fps_init)

    def ffps_init(l):
        init = lay(np.array([1, 3]), l)
        Xl = lay(X, l)
        return (lambda: (lambda m_: [m_.selected_idx_, m_.X_selected_])(_F.FPS(initialize=init, n_to_select=3).fit(Xl))), {"initialize": init, "X": Xl}
    pure("feature.FPS(initialize=array)", ffps_init)

    def pcc(l):
        Xl, Yl = lay(X, l), lay(Y2, l)
        return (lambda: pcovr_covariance(0.5, Xl, Yl)), {"X": Xl, "Y": Yl}
    pure("pcovr_covariance", pcc)

    def pck(l):
        Xl, Yl = lay(X, l), lay(Y2, l)
        return (lambda: pcovr_kernel(0.5, Xl, Yl)), {"X": Xl, "Y": Yl}
    pure("pcovr_kernel", pck)

    def shr(l):
        Cl = lay(np.cov(X[:, :3].T), l)
        return (lambda: [oas(Cl, 7.5, 3), np.array([effdim(Cl)])]), {"cov": Cl}
    pure("oas+effdim", shr)

    def yfo(l):
        yl, Xl = lay(Y2, l), lay(X[:, :3], l)
        return (lambda: Y_feature_orthogonalizer(yl, Xl, copy=True)), {"y": yl, "X": Xl}
    pure("Y_feature_orthogonalizer(copy=True)", yfo)
    def yso(l):
        yl, Xl, yr, Xr = lay(Y2, l), lay(X, l), lay(Y2[:5], l), lay(X[:5], l)
        return (lambda: Y_sample_orthogonalizer(yl, Xl, yr, Xr, copy=True)), {"y": yl, "X": Xl, "y_ref": yr, "X_ref": Xr}
    pure("Y_sample_orthogonalizer(copy=True)", yso)
    def tts(l):
        Xl, yl = lay(X, l), lay(y, l)
        return (lambda: list(train_test_split(Xl, yl, train_size=0.6, test_size=0.6, train_test_overlap=True, random_state=3))), {"X": Xl, "y": yl}
    pure("train_test_split(overlap)", tts)
    # the regressor hand-over utilities: neither the data nor a regressor that was fitted by the caller may be touched
    from sklearn.kernel_ridge import KernelRidge as _KR
    from sklearn.linear_model import Ridge as _R
    from skmatter.utils import check_krr_fit, check_lr_fit
    def clf(l):
        Xl, yl = lay(X, l), lay(Y2, l)
        return (lambda: check_lr_fit(_R(alpha=0.1, fit_intercept=False), Xl, yl).coef_), {"X": Xl, "y": yl}
    pure("check_lr_fit(unfitted)", clf)
    def clff(l):
        Xl, yl = lay(X, l), lay(Y2, l)
        reg = _R(alpha=0.1, fit_intercept=False).fit(X, Y2)
        return (lambda: check_lr_fit(reg, Xl, yl).coef_), {"X": Xl, "y": yl, "regressor.coef_": reg.coef_}
    pure("check_lr_fit(fitted)", clff)
    def ckf(l):
        Xl, yl = lay(X, l), lay(Y2, l)
        K = lay(X @ X.T, l)
        reg = _KR(alpha=0.1, kernel="linear").fit(X, Y2)
        return (lambda: check_krr_fit(reg, K, Xl, yl).dual_coef_), {"K": K, "X": Xl, "y": yl, "regressor.dual_coef_": reg.dual_coef_}
    pure("check_krr_fit(fitted)", ckf)
    return out


def gen(args):
    wid, jobs, sd = args
    cat = catalogue()
    rng = np.random.default_rng([sd, 909])
    dataA, dataB, dataC = make_data(rng, "A"), make_data(rng, "B"), make_data(rng, "C")
    out = []
    for (kind, name, hist, layout, tag) in core.timed(jobs):
        if kind == "est":
            out.append(est_trace(tag, name, cat[name], hist, dataA, dataB, layout, dataC))
        else:
            out.extend(func_traces(rng, dataA, layout, tag))
    return out


def strip(t):
    return {"id": t["id"], "entry": t["entry"], "layout": t["layout"], "scenario": t["scenario"], "events": t["events"]}


def uncovered():
    """public names of skmatter that the catalogue does not exercise (reported, never an alarm)"""
    import importlib
    names = set()
    for mod in ("clustering", "decomposition", "feature_selection", "sample_selection", "linear_model", "metrics", "neighbors",
                "preprocessing", "model_selection", "utils"):
        try:
            m = importlib.import_module("skmatter." + mod)
            names |= {"%s.%s" % (mod, n) for n in getattr(m, "__all__", [])}
        except Exception:
            pass
    covered = {"clustering.QuickShift", "decomposition.PCovR", "decomposition.KernelPCovR", "feature_selection.FPS", "feature_selection.CUR",
               "feature_selection.PCovFPS", "feature_selection.PCovCUR", "sample_selection.FPS", "sample_selection.CUR", "sample_selection.PCovFPS",
               "sample_selection.PCovCUR", "sample_selection.VoronoiFPS", "sample_selection.DirectionalConvexHull", "linear_model.Ridge2FoldCV",
               "linear_model.OrthogonalRegression", "neighbors.SparseKDE", "preprocessing.StandardFlexibleScaler", "preprocessing.KernelNormalizer",
               "preprocessing.SparseKernelCenterer", "model_selection.train_test_split", "utils.X_orthogonalizer", "utils.Y_feature_orthogonalizer",
               "utils.Y_sample_orthogonalizer", "utils.pcovr_covariance", "utils.pcovr_kernel", "decomposition.pcovr_covariance",
               "decomposition.pcovr_kernel", "utils.oas", "utils.effdim"}
    covered |= {"metrics." + n for n in ("pointwise_global_reconstruction_error", "global_reconstruction_error", "pointwise_global_reconstruction_distortion",
                                         "global_reconstruction_distortion", "pointwise_local_reconstruction_error", "local_reconstruction_error",
                                         "local_prediction_rigidity", "componentwise_prediction_rigidity", "periodic_pairwise_euclidean_distances",
                                         "pairwise_mahalanobis_distances")}
    return sorted(names - covered)


def run(tier):
    rep = core.Report("C09", tier)
    quick = tier == "quick"
    r = core.model_check("Lifecycle.tla", "mc/Lifecycle_ref.cfg", timeout=600)
    rep.add_mc("Lifecycle reference: all histories of <=4 fit / follow-up calls, MemUnchanged / ParamsUnchanged / RefitIsFresh / OutputIsCurrent", r)
    for v, inv in (("stale", "RefitIsFresh"), ("writeback", "ParamsUnchanged"), ("inplace", "MemUnchanged"), ("stalecache", "OutputIsCurrent")):
        rr = core.model_check("Lifecycle.tla", "mc/Lifecycle_%s.cfg" % v, coverage=False, timeout=600)
        if rr["error"] != "invariant-violated":
            raise core.Machinery("implementation-shaped variant %s does not violate %s" % (v, inv))
        rep.cov["parts"]["Lifecycle[%s] (mechanism found in the code)" % v] = "violates %s as expected" % rr.get("violated")
    rep.cov["exhaustive"] = True
    r = core.run_tlc("LifecycleHistories.tla", cfg="mc/LifecycleHistories.cfg", workers=1)
    rep.add_mc("LifecycleHistories: every history of <=3 fits over {A,B,C} x {y,-} x {small,large} (A and C of equal shape)", r)
    hists = [e["hist"] for e in r["records"] if e.get("k") == "H"]
    if len(hists) != 1884:
        raise core.Machinery("expected 1884 histories, got %d" % len(hists))
    names = list(catalogue())
    jobs = []
    rng = np.random.default_rng([core.seed(), 910])
    short = [h for h in hists if len(h) <= 2]
    long_ = [h for h in hists if len(h) == 3]
    for ni, name in enumerate(names):
        hs = short if not quick else [short[i] for i in rng.choice(len(short), size=12, replace=False)]
        hs = hs + [long_[i] for i in rng.choice(len(long_), size=(6 if quick else 60), replace=False)]
        for hi, h in enumerate(hs):
            jobs.append(("est", name, h, LAYOUTS[(hi + ni) % len(LAYOUTS)], "e%d-%d" % (ni, hi)))
    for li, layout in enumerate(LAYOUTS[:4]):
        jobs.append(("func", "", None, layout, "f%d" % li))
    parts = [(w, jobs[w::core.NCPU], core.seed()) for w in range(core.NCPU)]
    with mp.Pool(core.NCPU) as pool:
        traces = [t for part in pool.map(gen, parts) for t in part]
    verdicts, stats = core.validate_cases("trace/TraceLifecycle.tla", [strip(t) for t in traces], timeout=7200)
    rep.add_trace_stats("TraceLifecycle", stats, len(traces))
    core.judge(rep, traces, verdicts)
    ent = {}
    for t in traces:
        ent[t["entry"]] = ent.get(t["entry"], 0) + 1
    rep.cov["traces_by_entry_point"] = ent
    rep.cov["calls_checked"] = sum(len(t["events"]) for t in traces)
    rep.cov["public_names_not_in_catalogue"] = uncovered()
    rep.sample({"entry": traces[0]["entry"], "scenario": traces[0]["scenario"], "layout": traces[0]["layout"],
                "events": [{k: e[k] for k in ("op", "key", "fresh", "relation", "raised")} for e in traces[0]["events"][:6]]})
    rep.assumptions += ["purity is decided on byte digests of every caller-owned array before/after each call (C/F order, read-only buffers, strided views)",
                        "learned state = all public attributes with a trailing underscore, summarised by shape and four weighted sums at 1e-6 relative resolution (integers exactly); objects (fitted sub-estimators, hull objects) only by name"]
    return rep.finish()


def replay(path):
    return core.replay_recorded(path, "trace/TraceLifecycle.tla", strip)
