"""C17 — SparseKDE is a well-formed mixture consistent with its Voronoi assignment."""
import multiprocessing as mp
import warnings

import numpy as np

from harness import core

S = 16384


def fq(a):
    a = np.asarray(a, float)
    a = np.where(np.isfinite(a), a, 1e5)
    return np.rint(np.clip(a, -1.3e5, 1.3e5) * S).astype(int).tolist()


def fit_kde(D, w, G, cell, s, Q, fp, fs, reach=None, prior=None, msc=None):
    from skmatter.neighbors import SparseKDE
    mp_ = {"cell_length": np.asarray(cell, float) / s} if len(cell) else None
    extra = {}
    if msc is not None:
        # a metric chosen by the caller: the periodic Euclidean metric of anisotropically stretched coordinates
        from skmatter.metrics import periodic_pairwise_euclidean_distances as ppd
        sc = np.asarray(msc, float)

        def metric(X, Y, squared=True, cell_length=None):
            return ppd(np.asarray(X) * sc, np.asarray(Y) * sc, squared=squared, cell_length=None if cell_length is None else np.asarray(cell_length) * sc)
        extra["metric"] = metric
    # equal weights are passed as None (the documented default: uniform weights) half of the time
    wts = None if (len(set(int(v) for v in w)) == 1 and (int(np.sum(D)) + len(G)) % 2 == 0) else np.asarray(w, float).copy()
    kde = core.mk(SparseKDE, descriptors=np.asarray(D, float) / s, weights=wts, metric_params=mp_, fpoints=fp, fspread=fs, **extra)
    Gf = np.asarray(G, float) / s
    if prior is not None:
        # history: the same estimator object was fitted on another grid of the same size and queried before
        try:
            kde.fit(np.asarray(prior, float) / s)
            kde.score_samples(np.asarray(Q, float) / s)
        except Exception:
            pass
    if reach is None:
        kde.fit(Gf)
    else:
        # observe the localised weights used for each grid point's covariance (last call per grid point): the share
        # outside the dominant grid point decides the property's proviso "the localisation reaches at least one other grid point"
        import skmatter.neighbors._sparsekde as M
        orig = getattr(M, "_local_population", None)
        last = {}
        if orig is not None:
            def lp(cell_, gj, gi, gw, s2):
                out = orig(cell_, gj, gi, gw, s2)
                try:
                    hit = np.flatnonzero(np.all(np.asarray(gj) == np.asarray(gi), axis=1))
                    if len(hit) == 1 and np.isfinite(out[1]) and out[1] > 0:
                        wl = np.asarray(out[0], float)
                        # share of the localised population that lies OUTSIDE its most populated grid point (a grid point
                        # with an empty Voronoi cell has no weight of its own: one neighbour alone is still a single point)
                        last[int(hit[0])] = float(1.0 - wl.max() / wl.sum())
                except Exception:
                    pass
                return out
            M._local_population = lp
        try:
            kde.fit(Gf)
        finally:
            if orig is not None:
                M._local_population = orig
            reach.extend(int(round(last[i] * S)) for i in sorted(last))     # all grid points, or those up to the one at which the fit raised
    ld = kde.score_samples(np.asarray(Q, float) / s)
    return kde, ld


def case(cid, rng):
    dim = int(rng.integers(1, 4))
    nd = int(rng.integers(18, 46))
    ng = int(rng.integers(3, 9))
    s = [1, 2, 4][int(rng.integers(3))]
    periodic = rng.random() < 0.45
    cell = list(int(v) for v in rng.integers(8, 25, size=dim)) if periodic else []
    kind = ["multimodal", "aniso", "degenerate", "uniform", "singular", "multimodal", "uniform"][int(rng.integers(7))]
    if kind == "multimodal":
        cen = rng.integers(2, 20, size=(3, dim))
        D = cen[rng.integers(3, size=nd)] + rng.integers(-3, 4, size=(nd, dim))
    elif kind == "aniso":
        D = rng.integers(0, 22, size=(nd, dim)) // np.array([1, 4, 8][:dim]) + 3
    elif kind == "singular" and dim >= 2:
        # exactly singular covariances: a constant coordinate, or one coordinate an exact multiple of another
        D = rng.integers(0, 22, size=(nd, dim))
        D[:, -1] = 5 if rng.random() < 0.5 else 2 * D[:, 0]
    elif kind == "degenerate" and dim >= 2:
        D = rng.integers(0, 22, size=(nd, dim)); D[:, -1] = D[:, 0] // 2 + 4
    else:
        D = rng.integers(0, 22, size=(nd, dim))
    if periodic:
        D = D % np.array(cell)
    w = rng.integers(1, 5, size=nd) if rng.random() < 0.85 else np.full(nd, int(rng.integers(1, 4)))
    # distinct grid points (a grid with coincident points is not a valid input)
    uniq = np.unique(D, axis=0)
    rng.shuffle(uniq)
    ng = min(ng, len(uniq))
    G = uniq[:ng].copy()
    if rng.random() < 0.3:
        G2 = G + rng.integers(-1, 2, size=G.shape)
        # distinct also as points of the periodic cell (9 and 0 coincide for a cell of length 9)
        if len(np.unique(G2 % np.array(cell) if periodic else G2, axis=0)) == ng:
            G = G2
    # query points are never descriptors: half-lattice positions
    Q = rng.integers(-4, 28, size=(4, dim)) + 0.25      # never a descriptor, never exactly half a cell from anything
    if dim >= 2 and rng.random() < 0.5:
        # a query that is not a descriptor but shares the exact value of ONE coordinate with a descriptor (quantised data);
        # with a cell only along a side of odd length, so that the shared coordinate is never exactly half a cell away
        ax = int(rng.integers(dim))
        if not periodic or cell[ax] % 2 == 1:
            Q[0, ax] = float(D[int(rng.integers(nd)), ax])
    far = (not periodic) and rng.random() < 0.3
    if far:
        Qnear = Q[-1].copy()
        Q[-1] = Q[-1] + rng.choice([-1, 1], size=dim) * int(rng.integers(60, 400))       # one query in the far tail (log-density below -708)
        Qfar = Q[-1].copy()
    fp, fs = (0.5, -1.0) if rng.random() < 0.7 else (-1.0, float(rng.choice([0.3, 0.6])))
    fp = float(rng.choice([0.15, 0.3, 0.5])) if fs < 0 else fp
    c = {"id": cid, "kind": kind, "dim": dim, "D": D.astype(int).tolist(), "w": [int(v) for v in w], "G": G.astype(int).tolist(), "cell": cell, "scale": s,
         "Q": Q.tolist(), "fp": ([int(round(fp * 20)), 20] if fp > 0 else []), "fpoints": fp, "fspread": fs, "raised": False, "errclass": "", "labels": [], "gw": [], "H": [], "finite": True, "ld": [], "score": 0, "routes": [], "reach": [], "ldfinite": True}
    W = int(w.sum())
    try:
        with warnings.catch_warnings():
            warnings.simplefilter("ignore")
            prior = None
            if len(uniq) >= 2 * ng and rng.random() < 0.35:
                prior = uniq[ng:2 * ng]
                c["kind"] = kind + "+refit"
            kde, ld = fit_kde(D, w, G, cell, s, Q, fp, fs, reach=c["reach"], prior=prior)
            if far and np.all(np.isfinite(ld)) and ld.min() < -3e4:
                # keep the tail query inside the range of the fixed-point encoding (log-densities down to -3e4): move it closer
                for div in (4, 16, 64):
                    Q[-1] = Qnear + (Qfar - Qnear) / div
                    ld = kde.score_samples(np.asarray(Q, float) / s)
                    if ld.min() >= -3e4:
                        break
                c["Q"] = Q.tolist()
            H = np.asarray(kde.bandwidth_, float)
            c["finite"] = bool(np.all(np.isfinite(H)))
            c["ldfinite"] = bool(np.all(np.isfinite(ld)))       # the logarithm of a finite mixture is finite (log-sum-exp), also in the far tail
            if not (c["finite"] and c["ldfinite"]):
                c["H"] = [[[0] * dim] * dim] * ng
                c["ld"] = [0] * len(Q)
                return c
            try:
                c["labels"] = [int(v) + 1 for v in kde._sample_labels_]
                gw = np.asarray(kde._sample_weights, float) * W
                c["gw"] = [int(round(v)) if abs(v - round(v)) < 1e-6 else -1 for v in gw]
            except AttributeError:
                c["labels"], c["gw"] = [], []
            # bandwidths rescaled by a power of two so that the largest entry is of order one (definiteness is scale invariant)
            Hs = []
            for h in H:
                e = np.ceil(np.log2(np.abs(h).max()))
                Hs.append(fq(h / 2.0 ** e))
            c["H"] = Hs
            c["ld"] = fq(ld)
            c["score"] = fq([kde.score(Q / s)])[0]
            try:
                Hinv = np.array([np.linalg.inv(h) for h in H])                      # witnesses, verified by the specification
                logdet = np.array([np.linalg.slogdet(h)[1] for h in H])
                # weights of the documented mixture from the INPUTS (normalised caller weights, summed over the reported cells);
                # the logarithms are witnesses verified by the specification
                lab1 = [int(v) + 1 for v in kde._sample_labels_]
                w_in = np.asarray(w, float) / float(np.sum(w))
                gw_in = np.array([w_in[[l == j + 1 for l in lab1]].sum() for j in range(ng)])
                # the mixture identity is checked in units of length chosen per fit (a power of two u, exact for the dyadic
                # inputs) such that bandwidths and inverse bandwidths both stay inside the fixed-point range: lengths * u,
                # H * u^2, H^-1 / u^2, ln det H + 2 D ln u, log-density - D ln u
                hmax, imax = float(np.abs(H).max()), float(np.abs(Hinv).max())
                e_ = int(np.clip(np.round(0.25 * np.log2(max(imax, 1e-12) / max(hmax, 1e-12))), -2, 1))
                if np.abs(np.asarray(Q, float) / s).max() * 2.0 ** e_ > 400:
                    e_ = min(e_, 0)
                u = 2.0 ** e_
                c["mix"] = {"id": cid + "-mix", "dim": dim, "cell": fq(np.asarray(cell, float) / s * u) if len(cell) else [],
                            "D": fq(D / s * u), "G": fq(G / s * u), "Q": fq(np.asarray(Q, float) / s * u), "wi": [int(v) for v in w], "nlw": fq(-np.log(w_in)),
                            "nlgw": fq(-np.log(np.maximum(gw_in, 1e-300))), "labels": lab1,
                            "H": [fq(h * u * u) for h in H], "Hinv": [fq(h / (u * u)) for h in Hinv], "logdet": fq(logdet + 2 * dim * np.log(u)),
                            "kdecut": fq([kde.kdecut_squared])[0], "score": fq(ld - dim * np.log(u)), "unit_exponent": e_}
            except Exception:
                pass
            if dim >= 2 and rng.random() < 0.4:
                # the same data under a metric of the caller's choice (with or without a cell): recorded in the stretched
                # coordinates, in which that metric is the plain (periodic) Euclidean one; assignment, weights, definiteness
                # and the score identity are decided for it like for any other fit
                msc = [int(v) for v in rng.permutation([1, 2, 3])[:dim]]
                c2 = {"id": cid + "-metric", "kind": kind + "+metric", "D": (D * np.array(msc)).astype(int).tolist(), "w": c["w"], "G": (G * np.array(msc)).astype(int).tolist(),
                      "cell": [int(a * b) for a, b in zip(cell, msc)], "fp": c["fp"], "raised": False, "errclass": "", "labels": [], "gw": [], "H": [[[0] * dim] * dim] * ng,
                      "finite": True, "ld": [0] * len(Q), "score": 0, "routes": [], "reach": [], "ldfinite": True}
                try:
                    k2, l2 = fit_kde(D, w, G, cell, s, Q, fp, fs, reach=c2["reach"], msc=msc)
                    H2 = np.asarray(k2.bandwidth_, float)
                    c2["finite"] = bool(np.all(np.isfinite(H2)))
                    c2["ldfinite"] = bool(np.all(np.isfinite(l2)))
                    if c2["finite"] and c2["ldfinite"]:
                        c2["labels"] = [int(v) + 1 for v in k2._sample_labels_]
                        g2 = np.asarray(k2._sample_weights, float) * W
                        c2["gw"] = [int(round(v)) if abs(v - round(v)) < 1e-6 else -1 for v in g2]
                        c2["H"] = [fq(h / 2.0 ** np.ceil(np.log2(np.abs(h).max()))) for h in H2]
                        c2["ld"] = fq(l2)
                        c2["score"] = fq([k2.score(Q / s)])[0]
                except Exception as e2:  # noqa
                    if "infs or NaNs" in str(e2):
                        c2["finite"] = False
                    else:
                        c2["raised"], c2["errclass"], c2["msg"] = True, type(e2).__name__, "%s: %s" % (type(e2).__name__, str(e2)[:120])
                c["also"] = c2
            # symmetry routes (grid-point image shifts last, see known_findings.json)
            def route(kind_, D2, w2, G2, Q2):
                try:
                    _, l2 = fit_kde(D2, w2, G2, cell, s, Q2, fp, fs)
                    c["routes"].append({"kind": kind_, "ld": fq(l2), "finite": bool(np.all(np.isfinite(l2)))})
                except Exception as e:  # noqa
                    c["routes"].append({"kind": kind_ + "-raised", "ld": [2000000000] * len(Q), "finite": True})
            if not periodic:
                t = rng.integers(-9, 10, size=dim)
                route("translation-of-all-data", D + t, w, G + t, Q + t)
            pd_, pg = rng.permutation(nd), rng.permutation(ng)
            route("consistent-permutation", D[pd_], w[pd_], G[pg], Q)
            if periodic:
                ca = np.array(cell)
                route("whole-cell-shift-of-queries", D, w, G, Q + ca * rng.integers(-2, 3, size=Q.shape))
                route("whole-cell-shift-of-descriptors", D + ca * rng.integers(-2, 3, size=D.shape), w, G, Q)
                route("whole-cell-shift-of-grid-points", D, w, G + ca * rng.integers(-2, 3, size=G.shape), Q)
    except Exception as e:  # noqa
        if "infs or NaNs" in str(e):
            # a 0/0 covariance (the localisation did not reach another grid point) surfaces as a LinAlgError inside
            # the eigenvalue routine: the same undecidable proviso as a non-finite bandwidth
            c["finite"] = False
            c["H"] = [[[0] * dim] * dim] * ng
            c["ld"] = [0] * len(Q)
            return c
        c["raised"] = True
        c["errclass"] = type(e).__name__
        c["msg"] = "%s: %s" % (type(e).__name__, str(e)[:120])
        c["H"] = [[[0] * dim] * dim] * ng
        c["ld"] = [0] * len(Q)
    return c


def gen(args):
    wid, n, sd = args
    rng = np.random.default_rng([sd, wid, 1717])
    out = []
    for t in core.timed(range(n)):
        c = case("w%d-%d" % (wid, t), rng)
        out.append(c)
        if c.get("also"):
            out.append(c.pop("also"))
    return out


KEYS = ("id", "D", "w", "G", "cell", "fp", "raised", "errclass", "labels", "gw", "H", "finite", "ld", "score", "routes", "reach", "ldfinite")


def strip(c):
    return {k: c[k] for k in KEYS}


def run(tier):
    rep = core.Report("C17", tier)
    per = 10 if tier == "quick" else 120
    with mp.Pool(core.NCPU) as pool:
        cases = [c for part in pool.map(gen, [(w, per, core.seed()) for w in range(core.NCPU)]) for c in part]
    verdicts, stats = core.validate_cases("trace/TraceKDE.tla", [strip(c) for c in cases], timeout=7200)
    rep.add_trace_stats("TraceKDE", stats, len(cases))
    core.judge(rep, cases, verdicts)
    # part 2: the mixture identity (table-driven exp), on every finite fit
    mix = [c["mix"] for c in cases if c.get("mix") and c["finite"]]
    mv, mstats = core.validate_cases("trace/TraceKDEMix.tla", mix, timeout=7200)
    rep.add_trace_stats("TraceKDEMix", mstats, len(mix))
    core.judge(rep, mix, mv)
    rep.cov["mixture_identity_queries_decided"] = sum(int(v["ctx"].get("decided", 0)) for v in mv.values())
    kinds = {}
    for c in cases:
        k = "%s/%s" % (c["kind"], "periodic" if c["cell"] else "free")
        kinds[k] = kinds.get(k, 0) + 1
    rep.cov["cases_by_kind"] = kinds
    rep.cov["routes"] = sum(len(c["routes"]) for c in cases)
    rep.sample({k: cases[0][k] for k in ("kind", "D", "w", "G", "cell", "labels", "gw", "ld")})
    rep.assumptions += ["integer lattice descriptors / grids / cells times a dyadic scale; assignment labels and grid weights are read from the private attributes _sample_labels_ / _sample_weights (skipped if renamed)",
                        "the mixture identity is evaluated with a table-driven exp (self-checked by TLC) to about 3 %; inverse bandwidths, log-determinants and log-weights are numpy witnesses verified by the specification; queries with |log-density| > 60 or a Mahalanobis distance within 0.5 % of the cut-off are not decided"]
    return rep.finish()


def replay(path):
    return core.replay_recorded(path, "trace/TraceKDE.tla", strip)
