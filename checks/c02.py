"""C02 — FPS and PCov-FPS pick a farthest candidate each step and report true distances."""
import multiprocessing as mp

import numpy as np

from harness import core


def make_case(H, rng, name, X, y, cid, kw, init, n_to, mix8=None, chain=None, scale=1.0, thr=None):
    cls, axis, family, needs_y = H.CLASSES[name]
    N = X.shape[axis]
    if name == "sPCovFPS":
        unit, wa, wb = 16, 2 * mix8, 2 * (8 - mix8)
        Q = [[int(v)] for v in np.asarray(y).reshape(len(y), -1)[:, 0]] if np.asarray(y).ndim == 1 else np.asarray(y, int).tolist()
    else:
        unit, wa, wb = 2, 2, 0
        Q = [[] for _ in range(N)]
    P = (X if axis == 0 else X.T).astype(int).tolist()
    obj = core.mk(cls, **kw)
    # scaled lattice: the code sees X*scale, y*scale (genuine rounding); tables are converted back to lattice units
    rec = H.Recorder(obj, name, X.astype(float) * scale, None if y is None else np.asarray(y, float) * scale, unit / (scale * scale), True, fps=True)
    # an absolute score threshold (half-integers in lattice units: never on a value) may stop the search early; the reported
    # tables must be the true ones all the same
    # (never followed by a warm start: the known truncation of the index array after a threshold stop is C01's finding)
    if thr is None and not chain and scale == 1.0 and name != "sPCovFPS" and rng.random() < 0.25:
        thr = (2 * int(rng.integers(0, 30)) + 1, 2)
    ok = rec.fit(n_to, warm=False, with_y=needs_y, init=init, thr=thr)
    for n2 in (chain or []):
        if not ok:
            break
        ok = rec.fit(n2, warm=True, with_y=needs_y, init=[])
    return {"id": cid, "n": int(N), "cls": name, "P": P, "Q": Q, "wa": wa, "wb": wb,
            "wantinit": [int(i) + 1 for i in init], "events": rec.events,
            "params": {k: (v.tolist() if isinstance(v, np.ndarray) else v) for k, v in kw.items()}, "layer": rec.layer}


def gen(args):
    wid, n, sd = args
    from harness import selectors as H
    rng = np.random.default_rng([sd, wid, 202])
    out = []
    for t in core.timed(range(n)):
        kind = H.KINDS[int(rng.integers(len(H.KINDS)))]
        n_s, m_s = int(rng.integers(3, 13)), int(rng.integers(2, 5))
        X = H.lattice(rng, n_s, m_s, int(rng.integers(1, 7)), kind)
        y = rng.integers(-4, 5, size=n_s)
        which = t % 4
        scale = [1.0, 1.0, 1e-5, 3.7e-3, 0.25, 1e3, 7e-7][int(rng.integers(7))]
        N_s, N_f = n_s, m_s
        if which in (0, 1) and rng.random() < 0.12:
            # far-apart groups whose squared distances (about 1e8) differ by single units: well resolved in double precision,
            # equal after a round trip through single precision
            L = int(rng.integers(9000, 11000))
            X = X % 3
            far = rng.random(n_s) < 0.5
            X[far, 0] += L
            scale = 1.0
        if which in (0, 1) and rng.random() < 0.15 and scale in (1.0, 0.25):
            X = X + int(rng.integers(8000, 12000))       # uncentred data: squared norms ~1e8, distances of order 1..100 (exact in float64)
        if which in (0, 1):
            # sample FPS on X and feature FPS on X^T: the same reference instance (duality)
            N = N_s
            r = rng.random()
            if r < 0.35:
                k0 = int(rng.integers(1, min(3, N) + 1))
                init = [int(i) for i in rng.choice(N, size=k0, replace=False)]
                kw = {"initialize": list(init) if rng.random() < 0.5 else np.array(init)}
            elif r < 0.55:
                rs = int(rng.integers(0, 1000)) if rng.random() < 0.7 else 0      # 0 is the documented default (then omitted half of the time)
                kw = {"initialize": "random", "random_state": rs}
                init = [int(np.random.RandomState(rs).randint(N))]     # the documented draw (environment input)
            else:
                init = [int(rng.integers(N))]
                kw = {"initialize": init[0]}
            n_to = int(rng.integers(max(1, len(init)), N + 1))
            chain = None
            if rng.random() < 0.3 and n_to < N:
                chain = [int(rng.integers(n_to, N + 1))]
            if N < 2 or X.shape[1] < 2:
                continue
            out.append(make_case(H, rng, "sFPS", X, None, "w%d-%d-s" % (wid, t), dict(kw), init, n_to, chain=chain, scale=scale))
            if X.T.shape[0] >= 2:
                c2 = make_case(H, rng, "fFPS", X.T.copy(), None, "w%d-%d-f" % (wid, t), dict(kw), init, n_to, chain=chain, scale=scale)
                out.append(c2)
        elif which == 2:
            N = N_s
            a = int(rng.integers(0, 8))          # mixing = 1 is rejected by design ("use the FPS class")
            if rng.random() < 0.3:
                rs = int(rng.integers(0, 1000)) if rng.random() < 0.7 else 0      # 0 is the documented default (then omitted half of the time)
                kw = {"initialize": "random", "random_state": rs, "mixing": a / 8}
                init = [int(np.random.RandomState(rs).randint(N))]
            else:
                init = [int(rng.integers(N))]
                kw = {"initialize": init[0], "mixing": a / 8}
            n_to = int(rng.integers(1, N + 1))
            out.append(make_case(H, rng, "sPCovFPS", X, y, "w%d-%d-p" % (wid, t), kw, init, n_to, mix8=a, scale=scale))
        else:
            N = N_s
            init = [int(rng.integers(N))]
            kw = {"initialize": init[0], "full_fraction": [None, 0.01, 0.3, 1.0][int(rng.integers(4))]}
            n_to = int(rng.integers(1, N + 1))
            out.append(make_case(H, rng, "VoronoiFPS", X, None, "w%d-%d-v" % (wid, t), kw, init, n_to, scale=scale))
    return out


def gen_fx(args):
    """feature-direction PCov-FPS: fixed-point oracle with a verified SVD witness"""
    wid, n, sd = args
    import warnings
    import skmatter.feature_selection as F
    from harness import selectors as H
    from harness.pcovr import fq
    rng = np.random.default_rng([sd, wid, 203])
    out = []
    for t in core.timed(range(n)):
        ns, ni = int(rng.integers(5, 9)), int(rng.integers(3, 7))
        Xi = rng.integers(-6, 7, size=(ns, ni))
        if rng.random() < 0.25 and ni >= 3:
            Xi[:, -1] = Xi[:, 0]                      # duplicated feature
        Yi = rng.integers(-6, 7, size=(ns, 1))
        a = int(rng.integers(0, 8))
        i0 = int(rng.integers(ni))
        nsel = int(rng.integers(2, ni + 1))
        X, y = Xi / 4.0, Yi[:, 0] / 4.0
        c = {"id": "fx%d-%d" % (wid, t), "X": Xi.tolist(), "Y": Yi.tolist(), "a": a, "init": [i0 + 1], "steps": [], "table": [], "raised": False,
             "svd": {"U": [], "sv": [], "V": []}}
        # the same data in small units now and then (features and target times cu): the PCovR-modified covariance scales with
        # cu^2, so do all distances; eigenvalues of X^T X stay far above the documented absolute threshold 1e-12
        cu = float(rng.choice([1.0, 1.0, 3e-5, 1e2]))
        obj = core.mk(F.PCovFPS, mixing=a / 8.0, initialize=i0, n_to_select=nsel)
        rec = H.Recorder(obj, "fPCovFPS", X * cu, y * cu, 1, False)
        try:
            with warnings.catch_warnings():
                warnings.simplefilter("ignore")
                ok = rec.fit(nsel, warm=False, with_y=True, init=[i0])
            if not ok:
                c["raised"] = True
            else:
                for e in rec.events:
                    if e["a"] == "step" and e["c"] > 0:
                        pass
                # re-read the tables in fixed point (the recorder quantised with unit 1)
                c["steps"] = []
                calls = rec.calls
                idx = [int(i) + 1 for i in obj.selected_idx_]
                for k_, (sv_, nsel_, _) in enumerate(calls):
                    c["steps"].append({"c": idx[nsel_] if nsel_ < len(idx) else 0, "score": fq(np.minimum(sv_ / (cu * cu), 6e4))})
                c["table"] = fq(np.minimum(obj.get_distance() / (cu * cu), 6e4))
            U, sv, Vt = np.linalg.svd(X, full_matrices=False)
            keep = sv > 1e-6
            c["svd"] = {"U": fq(U[:, keep]), "sv": fq(sv[keep]), "V": fq(Vt[keep].T)}
        except Exception as e:  # noqa
            c["raised"] = True
            c["msg"] = str(e)[:100]
        out.append(c)
    return out


def strip_fx(c):
    return {k: c[k] for k in ("id", "X", "Y", "a", "init", "steps", "table", "raised", "svd")}


def strip(c):
    return {k: c[k] for k in ("id", "n", "P", "Q", "wa", "wb", "wantinit", "events")}


def run(tier):
    rep = core.Report("C02", tier)
    r = core.model_check("FPS.tla", "mc/FPS_%s.cfg" % ("quick" if tier == "quick" else "thorough"), timeout=3000)
    rep.add_mc("FPS reference (incremental table = brute force, all placements)", r)
    if tier == "thorough":
        r = core.model_check("FPS.tla", "mc/FPS_quick.cfg", timeout=3000)
        rep.add_mc("FPS reference 4 points on {0,1,3}^2", r)
    rep.cov["exhaustive"] = True
    if tier == "thorough":
        # optional extra: the incremental distance table (exact, dominated by the last selection distance, selection distances
        # non-increasing) as an inductive invariant for every N <= 6 and ANY symmetric dissimilarity (spec/apalache/FPSInd.tla)
        rep.cov["parts"]["Apalache inductive invariant of the distance table (extra)"] = core.apalache_inductive("FPSInd.tla")
    per = 30 if tier == "quick" else 500
    jobs = [(w, per, core.seed()) for w in range(core.NCPU)]
    with mp.Pool(core.NCPU) as pool:
        cases = [t for part in pool.map(gen, jobs) for t in part]
    verdicts, stats = core.validate_cases("trace/TraceFPS.tla", [strip(c) for c in cases])
    rep.add_trace_stats("TraceFPS", stats, len(cases))
    core.judge(rep, cases, verdicts)
    with mp.Pool(core.NCPU) as pool:
        fx = [t for part in pool.map(gen_fx, [(w, 6 if tier == "quick" else 80, core.seed()) for w in range(core.NCPU)]) for t in part]
    v2, st2 = core.validate_cases("trace/TraceFPSFx.tla", [strip_fx(c) for c in fx])
    rep.add_trace_stats("TraceFPSFx[feature PCov-FPS]", st2, len(fx))
    core.judge(rep, fx, v2)
    by = {}
    dual_same = dual_all = 0
    byid = {c["id"]: c for c in cases}
    for c in cases:
        by[c["cls"]] = by.get(c["cls"], 0) + 1
        if c["id"].endswith("-s") and c["id"][:-2] + "-f" in byid:
            a = [e for e in c["events"] if e["a"] == "post"]
            b = [e for e in byid[c["id"][:-2] + "-f"]["events"] if e["a"] == "post"]
            if a and b:
                dual_all += 1
                dual_same += a[-1]["p"]["idx"] == b[-1]["p"]["idx"]
    rep.cov["traces_by_class"] = by
    rep.cov["dual_pairs"] = {"pairs": dual_all, "identical_sequences": dual_same,
                             "note": "both members are validated against the same reference instance; differences are possible only at ties"}
    for c in cases[:2]:
        rep.sample({"cls": c["cls"], "params": c["params"], "P": c["P"], "events": c["events"][:4]})
    rep.assumptions += ["lattice inputs: float64 arithmetic of the implementation is exact, tables are compared as integers",
                        "the 'random' initial index is the documented draw check_random_state(random_state).randint(n), supplied as environment input"]
    return rep.finish()


def replay(path):
    return core.replay_recorded(path, "trace/TraceFPS.tla", strip)
