"""C05 — KernelPCovR agrees with PCovR and its kernel plumbing; scores any held-out set."""
import multiprocessing as mp
import warnings

import numpy as np

from harness import core

S = 16384


def fq(a):
    a = np.asarray(a, float)
    a = np.where(np.isfinite(a), a, 1e5)
    return np.rint(np.clip(a, -1.3e5, 1.3e5) * S).astype(int).tolist()


KERNELS = {
    "linear": dict(kernel="linear"),
    "rbf": dict(kernel="rbf", gamma=0.25),
    "poly": dict(kernel="poly", degree=2, gamma=0.25, coef0=1),
    "cosine": dict(kernel="cosine"),
    "poly0": dict(kernel="poly", degree=2, gamma=0.25, coef0=0),        # homogeneous polynomial: coef0 exactly zero (a falsy value)
    "sigmoid": dict(kernel="sigmoid", gamma=0.02, coef0=0.5),
    # a callable kernel with its own keyword arguments (kernel_params must reach the train AND every test kernel)
    "callable": dict(kernel="callable", kernel_params={"c": 0.2}),
}


def laplace_kernel(x, y, c=1.0):
    return float(np.exp(-c * np.abs(x - y).sum()))


def kfun(kp):
    return laplace_kernel if kp["kernel"] == "callable" else kp["kernel"]


def kraw(A, B, kp, full):
    from sklearn.metrics.pairwise import pairwise_kernels
    if kp["kernel"] == "callable":
        return pairwise_kernels(A, B, metric=laplace_kernel, **kp["kernel_params"])
    return pairwise_kernels(A, B, metric=kp["kernel"], filter_params=True, **full)


def kargs(kp, full):
    d = dict(kernel=kfun(kp), gamma=full["gamma"], degree=full["degree"], coef0=full["coef0"])
    if kp["kernel"] == "callable":
        d["kernel_params"] = dict(kp["kernel_params"])
    return d


def case(cid, rng):
    from sklearn.kernel_ridge import KernelRidge
    from sklearn.linear_model import Ridge
    from sklearn.metrics.pairwise import pairwise_kernels
    from sklearn.decomposition import KernelPCA
    from skmatter.decomposition import KernelPCovR, PCovR
    from skmatter.preprocessing import KernelNormalizer
    from harness.pcovr import centred_lattice
    n, m = int(rng.integers(5, 9)), int(rng.integers(2, 5))
    Xi = centred_lattice(rng, n, m, 4)
    p = int(rng.integers(1, 3))
    Yi = centred_lattice(rng, n, p, 4)
    X, Y = Xi / 4.0, Yi / 4.0
    kname = list(KERNELS)[int(rng.integers(len(KERNELS)))]
    kp = KERNELS[kname]
    center = bool(rng.integers(2))
    a = int(rng.integers(1, 9))
    k = int(rng.integers(1, 4))
    regk = ["none", "krr", "krr-fitted"][int(rng.integers(3))]
    alpha = 0.5
    kpar = {kk: v for kk, v in kp.items() if kk not in ("kernel", "kernel_params")}
    Kraw = kraw(X, None, kp, {**dict(gamma=None, degree=3, coef0=1), **kpar})
    if np.linalg.eigvalsh(Kraw).min() < -1e-9:      # input conditioning: the property presupposes a PSD kernel
        return None
    c = {"id": cid, "kernel": kname, "center": center, "a": a, "k": k, "reg": regk, "X": Xi.tolist(), "Yi": Yi.tolist(), "raised": False,
         "KNN": fq(Kraw), "iscale": S, "W": [], "TN": [], "ypN": [], "Ginv": [], "held": [], "routes": []}
    full = dict(gamma=None, degree=3, coef0=1)
    full.update(kpar)

    def mkreg():
        if regk == "none":
            return None
        r = KernelRidge(alpha=alpha, **kargs(kp, full))
        if regk == "krr-fitted":
            Kfit = KernelNormalizer().fit_transform(Kraw.copy()) if center else Kraw
            r2 = KernelRidge(alpha=alpha, kernel="precomputed").fit(Kfit, Y)
            # a fitted regressor must carry the same kernel parameters as the estimator
            r.fit(X, Y1)
            if center:
                return None if False else r   # fitted on the raw kernel: only meaningful without centring
        return r
    # a single target is handed over one-dimensional half of the time (the main model and its held-out scores)
    y1d = p == 1 and rng.random() < 0.5
    Y1 = Y[:, 0] if y1d else Y
    try:
        with warnings.catch_warnings():
            warnings.simplefilter("ignore")
            reg = mkreg()
            if regk == "krr-fitted" and center:
                reg = KernelRidge(alpha=alpha, **kargs(kp, full))
                c["reg"] = "krr"
            mdl = core.mk(KernelPCovR, mixing=a / 8.0, n_components=k, regressor=reg, center=center, svd_solver="full", tol=1e-12,
                              **kargs(kp, full)).fit(X, Y1)
            TN = mdl.transform(X)
            c["TN"], c["ypN"] = fq(TN), fq(np.reshape(mdl.predict(X), (n, -1)))
            c["W"] = fq(np.reshape(mdl.regressor_.dual_coef_, (n, -1)))
            G = TN.T @ TN
            if np.linalg.cond(G) < 1e8:
                c["Ginv"] = fq(np.linalg.inv(G))           # witness, verified by the specification
            else:
                c["Ginv"] = fq(np.zeros((k, k)))
            if center:
                c["iscale"] = int(round(S / mdl.centerer_.scale_)) if mdl.centerer_.scale_ > 1e-9 else 0
    except Exception as e:  # noqa
        c["raised"] = True
        c["msg"] = "%s: %s" % (type(e).__name__, str(e)[:120])
        return c
    # held-out sets of every size: 1, < n, = n, > n
    helds = []
    for V in (1, max(2, n - 2), n, n + 3, -1):
        if V == -1:
            V, Xv, Yv = n, X.copy(), Y.copy()            # the training set itself: score must equal the in-sample formula
        else:
            Xv = rng.integers(-6, 7, size=(V, m)) / 4.0
            Yv = rng.integers(-6, 7, size=(V, p)) / 4.0
            Yv[0, 0] = Yv[0, 0] if Yv[0, 0] != 0 else 0.5
        KVN = kraw(Xv, X, kp, full)
        KVV = kraw(Xv, None, kp, full)
        h = {"V": V, "KVN": fq(KVN), "KVV": fq(KVV), "Y": fq(Yv), "TV": [], "yp": [], "score": 0, "raised": False, "finite": True}
        try:
            with warnings.catch_warnings():
                warnings.simplefilter("ignore")
                h["TV"] = fq(mdl.transform(Xv))
                h["yp"] = fq(np.reshape(mdl.predict(Xv), (V, -1)))
                sc_ = float(mdl.score(Xv, Yv[:, 0] if y1d else Yv))
                h["finite"] = bool(np.isfinite(sc_))        # 0/0 when the centred self-kernel of the held-out set vanishes
                h["score"] = int(round(sc_ * S)) if h["finite"] else 0
        except Exception as e:  # noqa
            h["raised"] = True
            h["msg"] = "%s: %s" % (type(e).__name__, str(e)[:120])
            h["TV"], h["yp"] = fq(np.zeros((V, k))), fq(np.zeros((V, p)))
        helds.append((h, Xv, KVN))
    c["held"] = [h for h, _, _ in helds]
    h1, Xv1, KVN1 = helds[1]
    # routes
    def add_route(name, TNr, TVr=None, ypr=None):
        c["routes"].append({"name": name, "TN": fq(TNr), "TV": [] if TVr is None else fq(TVr), "yp": [] if ypr is None else fq(np.reshape(ypr, (n, -1))), "lamlast": 0})
    try:
        with warnings.catch_warnings():
            warnings.simplefilter("ignore")
            if kname == "linear" and not center and regk != "none" and k <= min(n, m):
                pm = PCovR(mixing=a / 8.0, n_components=k, space="sample", svd_solver="full", tol=1e-12,
                           regressor=Ridge(alpha=alpha, fit_intercept=False, tol=1e-12)).fit(X, Y)
                add_route("sample-space-PCovR-with-equivalent-ridge", pm.transform(X), pm.transform(Xv1), pm.predict(X))
            if True:
                # regressor="precomputed": the regressed targets K W and the dual coefficients of the model above handed over
                Kmodel = mdl.centerer_.transform(Kraw.copy()) if center else Kraw
                Wm = np.reshape(mdl.regressor_.dual_coef_, (n, -1))
                pp = KernelPCovR(mixing=a / 8.0, n_components=k, regressor="precomputed", center=center, svd_solver="full", tol=1e-12,
                                 **kargs(kp, full)).fit(X, Kmodel @ Wm, W=Wm.copy())
                add_route("precomputed-regressor", pp.transform(X), pp.transform(Xv1))
            # the other solvers (the truncated ones are exact here: the retained spectrum is separated - decided by the
            # specification - and the random sketch spans these small kernels) and the default "auto"
            for solver in ("arpack", "randomized", "auto"):
                rsol = (KernelRidge(alpha=alpha, **kargs(kp, full)) if (regk == "krr-fitted" and center) else mkreg())     # as for the main model
                ps = core.mk(KernelPCovR, mixing=a / 8.0, n_components=k, regressor=rsol, center=center, svd_solver=solver, tol=1e-12,
                             random_state=0, **kargs(kp, full)).fit(X, Y1)
                add_route("solver-" + solver, ps.transform(X), ps.transform(Xv1), ps.predict(X))
            if regk != "krr-fitted":
                alpha_r = 1.0 if regk == "none" else alpha
                pk = KernelPCovR(mixing=a / 8.0, n_components=k, kernel="precomputed", center=center, svd_solver="full", tol=1e-12,
                                 regressor=KernelRidge(alpha=alpha_r, kernel="precomputed")).fit(Kraw.copy(), Y)
                add_route("precomputed-kernel", pk.transform(Kraw.copy()), pk.transform(KVN1.copy()), pk.predict(Kraw.copy()))
                if center:
                    kn = KernelNormalizer().fit(Kraw.copy())
                    Kc = kn.transform(Kraw.copy())
                    pe = KernelPCovR(mixing=a / 8.0, n_components=k, kernel="precomputed", center=False, svd_solver="full", tol=1e-12,
                                     regressor=KernelRidge(alpha=alpha_r, kernel="precomputed")).fit(Kc.copy(), Y)
                    add_route("explicit-KernelNormalizer", pe.transform(Kc.copy()), pe.transform(kn.transform(KVN1.copy())), pe.predict(Kc.copy()))
                    if a == 8:
                        Kun = Kc * kn.scale_
                        kp_ = KernelPCA(n_components=k, kernel="precomputed").fit(Kun)
                        add_route("kernel-PCA-limit", kp_.transform(Kun) / np.sqrt(kn.scale_))
    except Exception as e:  # noqa
        c["routes"].append({"name": "route-raised: %s" % str(e)[:80], "TN": fq(np.full((n, k), 999.0)), "TV": [], "yp": [], "lamlast": 0})
    return c


def gen(args):
    wid, ncases, sd = args
    rng = np.random.default_rng([sd, wid, 505])
    out = []
    t = 0
    while len(out) < ncases and t < ncases * 5 and core.arm():
        c = case("w%d-%d" % (wid, t), rng)
        t += 1
        if c is not None:
            out.append(c)
    core.disarm()
    return out


KEYS = ("id", "kernel", "center", "a", "k", "raised", "KNN", "iscale", "W", "TN", "ypN", "Ginv", "held", "routes")


def strip(c):
    d = {k: c[k] for k in KEYS}
    d["held"] = [{k: h[k] for k in ("KVN", "KVV", "Y", "TV", "yp", "score", "raised", "finite")} for h in c["held"]]
    d["routes"] = [{k: r[k] for k in ("TN", "TV", "yp", "lamlast")} for r in c["routes"]]
    return d


def run(tier):
    rep = core.Report("C05", tier)
    per = 5 if tier == "quick" else 70
    with mp.Pool(core.NCPU) as pool:
        cases = [c for part in pool.map(gen, [(w, per, core.seed()) for w in range(core.NCPU)]) for c in part]
    verdicts, stats = core.validate_cases("trace/TraceKPCovR.tla", [strip(c) for c in cases], timeout=7200, chunks=core.NCPU, heap="4g")
    rep.add_trace_stats("TraceKPCovR", stats, len(cases))
    core.judge(rep, cases, verdicts)
    kinds, routes = {}, {}
    for c in cases:
        kk = "%s/center=%s/%s" % (c["kernel"], c["center"], c["reg"])
        kinds[kk] = kinds.get(kk, 0) + 1
        for r in c["routes"]:
            routes[r["name"][:40]] = routes.get(r["name"][:40], 0) + 1
    rep.cov["cases_by_kernel_center_regressor"] = kinds
    rep.cov["routes"] = routes
    rep.cov["held_out_sets_scored"] = sum(len(c["held"]) for c in cases)
    rep.cov["score_witness_verified"] = sum(1 for v in verdicts.values() if v["ctx"].get("ginv"))
    rep.sample({k: cases[0][k] for k in ("kernel", "center", "a", "k", "reg", "X", "TN")})
    rep.assumptions += ["kernel values are logged from sklearn's pairwise_kernels (environment); centring/scaling of the blocks, the modified kernel and the documented score are evaluated by the specification in 2^-14 fixed point",
                        "(T_N^T T_N)^-1 is a numpy witness verified by the specification; without a verified witness only the no-raise clause applies to held-out scores"]
    return rep.finish()


def replay(path):
    return core.replay_recorded(path, "trace/TraceKPCovR.tla", strip)
