"""C06 — Voronoi FPS is an exact accelerator: it selects what plain FPS selects."""
import json
import multiprocessing as mp

import numpy as np

from harness import core


class ScriptedClock:
    """Replacement for the module-level `time` of _voronoi_fps: steers the bisection of the
    switching point to the outcome given by `bits` (1 = pruned update measured faster)."""

    def __init__(self, bits, ntrial):
        self.seq = [0.0, float(ntrial)]               # simple FPS timing: 1.0 per trial
        t = 10.0
        for b in bits:
            for _ in range(ntrial):
                self.seq += [t, t + (0.5 if b else 2.0)]
                t += 5.0
        self.i = 0

    def __call__(self):
        v = self.seq[self.i] if self.i < len(self.seq) else self.seq[-1] + self.i
        self.i += 1
        return v


def vcase(H, rng, X, cid, kw, init, n_to, chain=None, clock=None, scale=1.0):
    import skmatter.sample_selection._voronoi_fps as vm
    N = X.shape[0]
    obj = H.CLASSES["VoronoiFPS"][0](**kw)
    # scaled lattice: the code sees X*scale (genuine rounding); tables are converted back to lattice units
    rec = H.Recorder(obj, "VoronoiFPS", X.astype(float) * scale, None, 2.0 / (scale * scale), True, fps=True)
    active = []
    try:
        orig = obj._get_active

        def wrapped(X_, last, _o=orig):
            a = _o(X_, last)
            active.append(int(len(a)))
            return a
        obj._get_active = wrapped
    except Exception:
        pass
    old = vm.time
    if clock is not None:
        vm.time = clock
    try:
        thr = None
        if scale == 1.0 and clock is None and not chain and rng is not None and rng.random() < 0.4:
            thr = (2 * int(rng.integers(0, 30)) + 1, 2)        # an absolute threshold (half-integer: never on a lattice value)
            if rng.random() < 0.6:
                # a threshold inside the range of distances that actually occur (many points already below it while the
                # search still runs): a half-integer next to a middle quantile of the pairwise squared distances
                Xi_ = X.astype(int)
                d2 = ((Xi_[:, None, :] - Xi_[None, :, :]) ** 2).sum(-1)[np.triu_indices(N, 1)]
                if len(d2):
                    thr = (2 * int(np.sort(d2)[int(rng.uniform(0.15, 0.7) * len(d2))]) + 1, 2)
        ok = rec.fit(n_to, warm=False, with_y=False, init=init, thr=thr)
        for n2 in (chain or []):
            if not ok:
                break
            ok = rec.fit(n2, warm=True, with_y=False, init=[])
        if clock is not None and ok:
            # a second cold fit of the same object after the (scripted) calibration: must be accepted whatever the
            # calibration returned, and must again be a behaviour of reference FPS
            vm.time = old
            rec.fit(n_to, warm=False, with_y=False, init=init)
            rec.events[[i for i, e in enumerate(rec.events) if e["a"] == "begin"][-1]]["valid"] = True
    finally:
        vm.time = old
    ff = getattr(obj, "full_fraction", None)
    return {"id": cid, "n": int(N), "cls": "VoronoiFPS", "P": X.astype(int).tolist(), "Q": [[] for _ in range(N)],
            "wa": 2, "wb": 0, "wantinit": [int(i) + 1 for i in init], "events": rec.events,
            "params": dict(kw), "scale": scale, "active": active, "ff_after": None if ff is None else float(ff), "layer": rec.layer}


def data(H, rng, big):
    kind = ["clustered", "clustered", "full", "duprows", "ties", "scaled"][int(rng.integers(6))]
    n = int(rng.integers(10, 41 if big else 21))
    m = int(rng.integers(2, 4))
    if rng.random() < 0.12:
        n = m = int(rng.integers(6, 11))        # as many features as samples (a square data matrix; never symmetric here)
    if kind == "clustered":
        c = rng.integers(-8, 9, size=(4, m)) * 6
        X = c[rng.integers(0, 4, size=n)] + rng.integers(-1, 2, size=(n, m))
    else:
        X = H.lattice(rng, n, m, 8, kind)
    if rng.random() < 0.2:
        # uncentred data (absolute coordinates): squared norms about 1e8 times the squared distances, still exact in float64
        X = X + rng.integers(8000, 12000, size=m)
        kind = kind + "+offset"
    return X, kind


def gen(args):
    wid, n, sd, big = args
    from harness import selectors as H
    rng = np.random.default_rng([sd, wid, 606])
    out = []
    for t in core.timed(range(n)):
        X, kind = data(H, rng, big)
        N = X.shape[0]
        ffs = [None, 0.01, 0.3, 1.0, 1 / 128, 0.9, 0.0, 0]        # both end points of the admissible range, also as an int
        ff = ffs[int(rng.integers(len(ffs)))]
        r = rng.random()
        if r < 0.3:
            rs = int(rng.integers(1000)) if rng.random() < 0.7 else 0      # 0 is the documented default (then omitted half of the time)
            kw = {"initialize": "random", "random_state": rs}
            init = [int(np.random.RandomState(rs).randint(N))]
        else:
            init = [int(rng.integers(N))]
            kw = {"initialize": init[0]}
        kw["full_fraction"] = ff
        kw["n_trial_calculation"] = int(rng.choice([1, 4]))
        form = int(rng.integers(3))
        n_to = None if form == 0 else (int(rng.integers(1, 9)) / 8 if form == 1 else int(rng.integers(1, N + 1)))
        if form == 1 and int(N * n_to) < 1:
            n_to = 1.0
        chain = None
        if rng.random() < 0.3:
            cur = N // 2 if n_to is None else (int(N * n_to) if isinstance(n_to, float) else n_to)
            if cur < N:
                chain = [int(rng.integers(cur, N + 1))]
        scale = [1.0, 1.0, 1e-5, 3.7e-3, 0.25, 1e3, 7e-7][int(rng.integers(7))]
        c = vcase(H, rng, X, "w%d-%d" % (wid, t), kw, init, n_to, chain=chain, scale=scale)
        c["kind"] = kind
        out.append(c)
    if wid < (1 if not big else 8):
        # one LARGE instance per run (several in the thorough tier): anything that depends on the absolute number of active
        # points (blocking, batching) is invisible on a few dozen points; few selections keep the trace small
        nl = int(rng.integers(1200, 1700)) if not big else int(rng.integers(1200, 3200))
        cen = rng.integers(-40, 41, size=(5, 2)) * 8
        X = cen[rng.integers(0, 5, size=nl)] + rng.integers(-12, 13, size=(nl, 2))
        ff = [1.0, 0.8, 0.95][wid % 3]         # 1.0: the pruned update runs with every point active
        c = vcase(H, rng, X, "w%d-large" % wid, {"initialize": 0, "full_fraction": ff, "n_trial_calculation": 1}, [0], int(rng.integers(4, 8)))
        c["kind"] = "large"
        out.append(c)
    return out


def gen_sched(args):
    """Replay of the calibration behaviours TLC enumerated (bits -> result)."""
    wid, behaviours, sd = args
    from harness import selectors as H
    rng = np.random.default_rng([sd, 607])       # same data for every schedule
    c = rng.integers(-8, 9, size=(4, 2)) * 6
    X = c[rng.integers(0, 4, size=36)] + rng.integers(-1, 2, size=(36, 2))
    out = []
    for b in behaviours:
        for ntrial in (1, 4):
            kw = {"initialize": 0, "full_fraction": None, "n_trial_calculation": ntrial}
            cs = vcase(H, rng, X, "sch-%s-%d" % ("".join(map(str, b["bits"])), ntrial), kw, [0], 12,
                       clock=ScriptedClock(b["bits"], ntrial))
            cs["expected_result_128"] = b["result"]
            cs["kind"] = "schedule"
            out.append(cs)
    return out


def strip(c):
    return {k: c[k] for k in ("id", "n", "P", "Q", "wa", "wb", "wantinit", "events")}


def run(tier):
    rep = core.Report("C06", tier)
    quick = tier == "quick"
    r = core.model_check("VoronoiFPS.tla", "mc/VoronoiFPS_%s.cfg" % ("quick" if quick else "thorough"), timeout=3 * 3600, heap="24g")
    rep.add_mc("VoronoiFPS refines FPS (%s)" % ("4 points on {0,1,3}^2, 3 switching points" if quick else "5 points on {0,1,3}^2, 3 switching points"), r)
    if not quick:
        r = core.model_check("VoronoiFPS.tla", "mc/VoronoiFPS_thorough2.cfg", timeout=3 * 3600, heap="24g")
        rep.add_mc("VoronoiFPS refines FPS (4 points on {0,1,2,5}^2, 3 switching points)", r)
        r = core.model_check("VoronoiFPS.tla", "mc/VoronoiFPS_allff.cfg", timeout=3600, heap="16g")
        rep.add_mc("VoronoiFPS refines FPS, every calibration outcome k/128 and 1.0, 3 points on {0,1,3}^2", r)
    # random exploration of larger instances (8 points on a 6x6 lattice, 4 switching points): tlc -simulate under a time budget
    rs = core.run_tlc("VoronoiFPS.tla", cfg="mc/VoronoiFPS_sim.cfg", workers=core.NCPU, simulate="num=%d" % (250 if quick else 20000), depth=17,
                      extra=["-seed", str(core.seed() + 7)], timeout=300 if quick else 3600, budget_ok=True, heap="8g")
    if rs["error"]:
        raise core.Machinery("VoronoiFPS simulation: %s\n%s" % (rs["error"], core.tlc_error_excerpt(rs, 30)))
    rep.cov["parts"]["VoronoiFPS simulation, 8 points on {0,1,2,5,6,9}^2"] = {"states_checked": rs.get("sim_states", 0), "behaviours": rs.get("sim_traces", 0), "result": "no error"}
    # spec -> code: the point sets / switching points / initial points of the behaviours TLC generated (tie-rich lattices)
    simjobs, seen = [], set()
    for b in rs["records"]:
        if isinstance(b, dict) and b.get("k") == "F":
            key = json.dumps([b["P"], b["ff"], b["sel"][0]])
            if key not in seen and len(simjobs) < (200 if quick else 4000):
                seen.add(key)
                simjobs.append(b)
    rep.cov["parts"]["VoronoiFPS simulation, 8 points on {0,1,2,5,6,9}^2"]["behaviours_replayed_in_the_code"] = len(simjobs)
    rep.cov["states"] += rs.get("sim_states", 0)
    rep.cov["transitions"] += rs.get("sim_states", 0)
    rep.cov["exhaustive"] = True
    for name, inv in (("vac1", "NeverPrunes"), ("vac2", "NeverSparse")):
        r = core.model_check("VoronoiFPS.tla", "mc/VoronoiFPS_%s.cfg" % name, timeout=1200, coverage=False)
        if r["error"] != "invariant-violated":
            raise core.Machinery("vacuity probe %s not violated: pruning is not exercised by the model" % inv)
        rep.cov["parts"]["vacuity probe " + inv] = "violated as expected (pruning / sparse branch reachable)"
    r = core.model_check("VoronoiFPS.tla", "mc/VoronoiFPS_badprune.cfg", timeout=1200, coverage=False)
    if r["error"] != "invariant-violated":
        raise core.Machinery("unsound pruning factor 1/2 not detected by the model")
    rep.cov["parts"]["mutation demo: pruning factor 1/2"] = "TLC counterexample found (%s)" % r.get("violated")
    # calibration behaviours
    r = core.run_tlc("VoronoiCalibration.tla", cfg="mc/VoronoiCalibration.cfg", workers=1)
    rep.add_mc("VoronoiCalibration (all timing outcomes of the bisection)", r)
    rp = core.run_tlc("VoronoiCalibration.tla", cfg="mc/VoronoiCalibration_pinned.cfg", workers=1)
    if rp["error"] != "invariant-violated":
        raise core.Machinery("pinned validation rule (0 < full_fraction) not rejected by the calibration model")
    rep.cov["parts"]["VoronoiCalibration[pinned validation rule]"] = "violates RefitAccepted as expected (outcome 0 is not a valid parameter)"
    beh = [b for b in r["records"] if b.get("k") == "B"]
    if len(beh) != 128:
        raise core.Machinery("expected 128 calibration behaviours, got %d" % len(beh))
    if quick:
        beh = beh[core.seed() % 4::4]
    per = 12 if quick else 320
    jobs = [(w, per, core.seed(), not quick) for w in range(core.NCPU)]
    sj = [(w, beh[w::core.NCPU], core.seed()) for w in range(core.NCPU)]
    with mp.Pool(core.NCPU) as pool:
        cases = [t for part in pool.map(gen, jobs) for t in part]
        sched = [t for part in pool.map(gen_sched, sj) for t in part]
    from harness import selectors as H
    simc = []
    for k_, b in enumerate(simjobs):
        X = np.asarray(b["P"], int)
        cs = vcase(H, None, X, "sim-%d" % k_, {"initialize": int(b["sel"][0]) - 1, "full_fraction": int(b["ff"]) / 128.0, "n_trial_calculation": 1},
                   [int(b["sel"][0]) - 1], len(X))
        cs["kind"] = "tlc-behaviour"
        simc.append(cs)
    allc = cases + sched + simc
    verdicts, stats = core.validate_cases("trace/TraceFPS.tla", [strip(c) for c in allc])
    rep.add_trace_stats("TraceFPS[VoronoiFPS]", stats, len(allc))
    core.judge(rep, allc, verdicts)
    # the calibrated switching point must be the one the model predicts for the scripted outcome
    for c in sched:
        if c["ff_after"] is None or abs(c["ff_after"] * 128 - c["expected_result_128"]) > 1e-9:
            rep.reject(c, "calibrated-switching-point-differs-from-model", {}, [c["ff_after"], c["expected_result_128"]])
    pruned = sum(1 for c in allc for a in c["active"] if a < c["n"])
    rep.cov["pruned_steps_observed"] = pruned
    rep.cov["schedules_replayed"] = len(sched)
    rep.hit("pruned-step", pruned)
    if pruned == 0:
        raise core.Machinery("no pruned update observed in any trace: the pruning rule was not exercised")
    rep.sample({"params": cases[0]["params"], "P": cases[0]["P"][:6], "events": cases[0]["events"][:3]})
    rep.sample({"schedule": sched[0]["id"], "ff_after": sched[0]["ff_after"], "events": sched[0]["events"][:2]})
    rep.assumptions += ["the wall-clock calibration is driven through the module attribute `time` (scripted clock); pruned-set sizes are read through a wrapper of _get_active and used as coverage only"]
    return rep.finish()


def replay(path):
    return core.replay_recorded(path, "trace/TraceFPS.tla", strip)
