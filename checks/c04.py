"""C04 — PCovR interpolates optimally and monotonically between PCA and regression."""
import multiprocessing as mp

import warnings

import numpy as np

from harness import core


def orth(A):
    q, _ = np.linalg.qr(A)
    return q


def gen(args):
    wid, ncases, sd = args
    from harness import pcovr as P
    rng = np.random.default_rng([sd, wid, 404])
    out = []
    for t in core.timed(range(ncases)):
        n, m = int(rng.integers(4, 8)), int(rng.integers(2, 6))
        Xi = P.centred_lattice(rng, n, m, 4)
        if rng.random() < 0.15:
            n = m = int(rng.integers(4, 7))
            Xi = P.symmetric_centred(rng, n)              # a square symmetric data matrix is still a data matrix
        p = int(rng.integers(1, 3))
        Yi = P.centred_lattice(rng, n, p, 4)
        if rng.random() < 0.15:
            jf = int(rng.integers(m))
            if np.any(Xi[:, jf]):
                Yi[:, 0] = Xi[:, jf]                     # a target that is exactly one of the (non-empty) features
        if p == 2 and rng.random() < 0.2:
            Yi[:, 1] = Yi[:, 0]                              # the same property given twice (it counts twice in the objective)
        X, Y = Xi / 4.0, Yi / 4.0
        kmax = min(n, m)
        k = int(rng.integers(1, kmax + 1))
        route = "lr" if t % 2 == 0 else "ridge"
        space = "sample" if rng.random() < 0.5 else "feature"
        fits, chain, bad, msg = [], [], False, None
        full = {}
        for a in range(0, 9):
            rec = P.fit_record(Xi, Yi, a, k, space, "full", route)
            if rec["raised"]:
                bad, msg = True, rec.get("msg")
                break
            if a not in full:
                fr = P.fit_record(Xi, Yi, a, kmax, "sample", "full", route, extras=False)
                rec["lamfull"] = fr["lam"] if not fr["raised"] else rec["lam"]
            T, lam, Yh = rec["_T"], rec["_lam"], rec["_Yh"]
            # witnesses / competitors (all verified or merely evaluated by the specification)
            good = lam > 1e-6
            if good.all():
                rec["That"] = P.fq(T / np.sqrt(lam))
            comps = []
            U, sv, Vt = np.linalg.svd(X, full_matrices=False)
            comps.append(U[:, :k])                                           # PCA subspace
            B = orth(np.hstack([Yh, U]))[:, :k]                               # regression subspace (completed by PCA directions)
            comps.append(B)
            for _ in range(3):
                comps.append(orth(rng.normal(size=(n, k))))                  # arbitrary subspaces
            if good.all():
                for eps in (0.02, 0.2):
                    comps.append(orth(T / np.sqrt(lam) + eps * rng.normal(size=(n, k))))   # perturbations of the fitted subspace
            rec["comp"] = [P.fq(c) for c in comps if c.shape == (n, k)]
            if a == 8:
                rec["pcaV"] = P.fq(Vt[:k].T)
                # the other forms of n_components (a fraction of the variance, 'mle') given to PCA and to PCovR at mixing = 1
                try:
                    from sklearn.decomposition import PCA
                    from skmatter.decomposition import PCovR
                    # ('mle' only for tall data of full column rank: on rank-deficient data PCovR's dimension estimate fails with
                    # "math domain error" where PCA answers - a rejected request, which this property does not speak about)
                    mle_ok = n > m and np.linalg.matrix_rank(X) == m
                    req = [0.45, 0.55, 0.65, 0.85, 0.93][int(rng.integers(5))] if (not mle_ok or rng.random() < 0.6) else "mle"
                    with warnings.catch_warnings():
                        warnings.simplefilter("ignore")
                        kp = int(PCA(n_components=req, svd_solver="full").fit(X).n_components_)
                        kc = int(PCovR(mixing=1.0, n_components=req, space=space, svd_solver="full", tol=1e-12, regressor=P.regressor_for(route)).fit(X, Yi / 4.0).n_components_)
                    rec["kform"] = [kp, kc]
                except Exception as e_:  # noqa
                    rec["kform_msg"] = "%s: %s" % (type(e_).__name__, str(e_)[:100])      # not probed
            if a == 0 and route == "lr":
                rec["lrW"] = P.fq(rec["_W"])
            chain.append(len(fits) + 1)
            fits.append(rec)
        c = {"id": "w%d-%d" % (wid, t), "mode": "C04", "monoY": route == "lr", "X": Xi.tolist(), "Y": Yi.tolist(), "raised": bad,
             "fits": [P.public(f) for f in fits] if not bad else [], "chains": [chain] if not bad else [], "groups": [], "route": route, "space": space, "k": k}
        if bad:
            c["msg"] = msg
        out.append(c)
    return out


def strip(c):
    return {k: c[k] for k in ("id", "mode", "X", "Y", "raised", "fits", "chains", "groups", "monoY")}


def run(tier):
    rep = core.Report("C04", tier)
    per = 5 if tier == "quick" else 60
    with mp.Pool(core.NCPU) as pool:
        cases = [c for part in pool.map(gen, [(w, per, core.seed()) for w in range(core.NCPU)]) for c in part]
    verdicts, stats = core.validate_cases("trace/TracePCovR.tla", [strip(c) for c in cases], timeout=7200, chunks=core.NCPU, heap="4g")
    rep.add_trace_stats("TracePCovR[C04]", stats, len(cases))
    core.judge(rep, cases, verdicts)
    import math
    ncomp = 0
    for c in cases:
        n = len(c["X"])
        for f in c["fits"]:
            ncomp += math.comb(n, f["k"]) + len(f["comp"]) + 6 * n * (n - 1) // 2
    rep.cov["fits_checked"] = sum(len(c["fits"]) for c in cases)
    rep.cov["competitor_subspaces_evaluated_by_TLC"] = ncomp
    f0 = cases[0]["fits"][0] if cases[0]["fits"] else {}
    rep.sample({"X": cases[0]["X"], "Y": cases[0]["Y"], "route": cases[0]["route"], "k": cases[0]["k"], "mixing_grid": "0/8..8/8", "lam_at_mixing_0": f0.get("lam")})
    rep.assumptions += ["centred lattice data (entries/4), regressors without intercept; objective values are evaluated in 2^-14 fixed point, optimality is demanded up to a budget of about 0.3 %",
                        "competitor bases supplied by the harness are verified orthonormal by the specification; coordinate subspaces and Givens rotations of the fitted subspace are enumerated by TLC"]
    return rep.finish()


def replay(path):
    return core.replay_recorded(path, "trace/TracePCovR.tla", strip)
