#!/bin/sh
# Nothing to compile: verify the toolchain and that every TLA+ module parses.
set -e
cd "$(dirname "$0")"
ROOT=$(pwd)
/venv/bin/python -c "import sys; sys.path.insert(0,'/repo/src'); import skmatter, numpy, sklearn; print('skmatter from', skmatter.__file__)"
java -version 2>&1 | head -1
fail=0
for f in spec/*.tla spec/trace/*.tla; do
  out=$(cd "$(dirname "$f")" && java -DTLA-Library="$ROOT/spec/lib:$ROOT/spec" -cp /opt/veriftools/tla/tla2tools.jar:/opt/veriftools/tla/CommunityModules-deps.jar tla2sany.SANY "$(basename "$f")" 2>&1) || true
  if echo "$out" | grep -q -i "error"; then echo "SANY failed on $f"; echo "$out" | tail -5; fail=1; fi
done
mkdir -p evidence out
exit $fail
